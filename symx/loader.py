"""
Instrumenting import loader: loads every lightworks.* module from the source
tree of the repository under test, applying a small mechanical AST rewrite:

  1. a ** b          -> _sx_pow(a, b)
  2. a / b           -> _sx_div(a, b)
  3. imports of numpy, math, random, thewalrus, multimethod -> symx.shims.*
  4. a module-level `isinstance` that knows symbolic scalars
  5. float(x)        -> _sx_float(x)   (identity on symbolic reals)
Nothing else is changed; no statement is removed or reordered.
"""
import ast
import hashlib
import importlib.abc
import importlib.machinery
import importlib.util
import os
import sys

SHIMS = {
    "numpy": "symx.shims.numpy_",
    "numpy.random": "symx.shims.nprandom_",
    "math": "symx.shims.math_",
    "random": "symx.shims.random_",
    "thewalrus": "symx.shims.thewalrus_",
    "multimethod": "symx.shims.multimethod_",
}

STATS = {"modules": 0, "pow_sites": 0, "div_sites": 0, "imports_redirected": 0, "files": {}}

PRELUDE = (
    "from symx.rt import isinstance_ as isinstance, pow_ as _sx_pow, div_ as _sx_div, float_ as _sx_float\n"
)


class _Rewriter(ast.NodeTransformer):
    def visit_BinOp(self, node):
        self.generic_visit(node)
        if isinstance(node.op, ast.Pow):
            STATS["pow_sites"] += 1
            return ast.copy_location(
                ast.Call(ast.Name("_sx_pow", ast.Load()), [node.left, node.right], []), node
            )
        if isinstance(node.op, ast.Div):
            STATS["div_sites"] += 1
            return ast.copy_location(
                ast.Call(ast.Name("_sx_div", ast.Load()), [node.left, node.right], []), node
            )
        return node

    def visit_Call(self, node):
        self.generic_visit(node)
        if isinstance(node.func, ast.Name) and node.func.id == "float" and len(node.args) == 1 and not node.keywords:
            STATS["float_sites"] = STATS.get("float_sites", 0) + 1
            node.func = ast.copy_location(ast.Name("_sx_float", ast.Load()), node.func)
        return node

    def visit_AugAssign(self, node):
        self.generic_visit(node)
        if isinstance(node.op, (ast.Pow, ast.Div)):
            fn = "_sx_pow" if isinstance(node.op, ast.Pow) else "_sx_div"
            STATS["pow_sites" if fn == "_sx_pow" else "div_sites"] += 1
            load = ast.parse(ast.unparse(node.target), mode="eval").body
            return ast.copy_location(
                ast.Assign([node.target], ast.Call(ast.Name(fn, ast.Load()), [load, node.value], [])),
                node,
            )
        return node

    def visit_Import(self, node):
        out = []
        for al in node.names:
            if al.name in SHIMS:
                STATS["imports_redirected"] += 1
                tgt = al.asname or al.name.split(".")[0]
                out.append(
                    ast.copy_location(
                        ast.ImportFrom(
                            SHIMS[al.name].rsplit(".", 1)[0],
                            [ast.alias(SHIMS[al.name].rsplit(".", 1)[1], tgt)],
                            0,
                        ),
                        node,
                    )
                )
            else:
                out.append(ast.copy_location(ast.Import([al]), node))
        return out

    def visit_ImportFrom(self, node):
        if node.level == 0 and node.module in SHIMS:
            STATS["imports_redirected"] += 1
            return ast.copy_location(ast.ImportFrom(SHIMS[node.module], node.names, 0), node)
        return node


def instrument(source: str, filename: str):
    tree = ast.parse(source, filename)
    tree = _Rewriter().visit(tree)
    # insert prelude after docstring and __future__ imports
    pre = ast.parse(PRELUDE).body
    i = 0
    body = tree.body
    if body and isinstance(body[0], ast.Expr) and isinstance(getattr(body[0], "value", None), ast.Constant) and isinstance(body[0].value.value, str):
        i = 1
    while i < len(body) and isinstance(body[i], ast.ImportFrom) and body[i].module == "__future__":
        i += 1
    tree.body = body[:i] + pre + body[i:]
    ast.fix_missing_locations(tree)
    return compile(tree, filename, "exec", dont_inherit=True)


class _Loader(importlib.machinery.SourceFileLoader):
    def get_code(self, fullname):
        path = self.get_filename(fullname)
        with open(path, "rb") as f:
            data = f.read()
        STATS["modules"] += 1
        STATS["files"][os.path.relpath(path, _ROOT[0])] = hashlib.sha256(data).hexdigest()[:16]
        return instrument(data.decode("utf-8"), path)


_ROOT = [None]


class _Finder(importlib.abc.MetaPathFinder):
    def __init__(self, root):
        self.root = root

    def find_spec(self, fullname, path, target=None):
        if fullname != "lightworks" and not fullname.startswith("lightworks."):
            return None
        rel = fullname.replace(".", "/")
        pkg = os.path.join(self.root, rel, "__init__.py")
        mod = os.path.join(self.root, rel + ".py")
        if os.path.isfile(pkg):
            return importlib.util.spec_from_file_location(
                fullname, pkg, loader=_Loader(fullname, pkg),
                submodule_search_locations=[os.path.join(self.root, rel)],
            )
        if os.path.isfile(mod):
            return importlib.util.spec_from_file_location(fullname, mod, loader=_Loader(fullname, mod))
        return None


def install(repo_root="/repo"):
    """Make `import lightworks` load the instrumented package from repo_root."""
    repo_root = os.path.abspath(repo_root)
    for k in list(sys.modules):
        if k == "lightworks" or k.startswith("lightworks."):
            raise RuntimeError("lightworks already imported; install the loader first")
    _ROOT[0] = repo_root
    sys.meta_path.insert(0, _Finder(repo_root))
    sys.dont_write_bytecode = True


def install_plain(repo_root="/repo"):
    """Plain (un-instrumented) import from repo_root, for concrete replays."""
    repo_root = os.path.abspath(repo_root)
    sys.path.insert(0, repo_root)
    sys.dont_write_bytecode = True
