"""thewalrus.perm stand-in: the permanent by its definition (expansion along
rows with memoised column subsets), over the scalar ring."""
import numpy as _np


def perm(m, *a, **k):
    m = _np.asarray(m, dtype=object)
    n = m.shape[0]
    if n == 0:
        return 1
    memo = {}

    def rec(row, cols):
        if row == n:
            return 1
        key = cols
        r = memo.get(key)
        if r is not None:
            return r
        tot = 0
        for j in range(n):
            if not cols & (1 << j):
                e = m[row, j]
                if type(e) is int and e == 0:
                    continue
                tot = tot + e * rec(row + 1, cols | (1 << j))
        memo[key] = tot
        return tot

    return rec(0, 0)
