"""multimethod stand-in with the same registration API, dispatching with the
symbolic-aware isinstance on the first element of parametric containers."""
import types
import typing
from typing import Any

from ..rt import isinstance_


def _matches(v, ann):
    if ann is Any or ann is typing.Any or ann is None.__class__ and v is None:
        return True
    if ann is None:
        return v is None
    origin = typing.get_origin(ann)
    if origin is typing.Union or isinstance(ann, types.UnionType):
        return any(_matches(v, a) for a in typing.get_args(ann))
    if origin is dict:
        if not isinstance(v, dict):
            return False
        kt, vt = typing.get_args(ann)
        for k, x in v.items():
            return _matches(k, kt) and _matches(x, vt)
        return True
    if origin in (list, tuple, set):
        if not isinstance(v, origin):
            return False
        args = typing.get_args(ann)
        for x in v:
            return _matches(x, args[0]) if args else True
        return True
    if origin is not None:
        return isinstance(v, origin)
    try:
        return isinstance_(v, ann)
    except TypeError:
        return True


class multimethod:
    def __init__(self, fn):
        self.fns = []
        self.__name__ = getattr(fn, "__name__", "multimethod")
        self.__doc__ = fn.__doc__
        self._add(fn)

    def _add(self, fn):
        hints = typing.get_type_hints(fn)
        code = fn.__code__
        names = code.co_varnames[: code.co_argcount]
        self.fns.insert(0, (fn, [hints.get(n, Any) for n in names]))

    def register(self, fn):
        self._add(fn)
        return fn

    def __call__(self, *args, **kw):
        best = None
        for fn, anns in self.fns:
            if len(args) > len(anns):
                continue
            if all(_matches(a, t) for a, t in zip(args, anns)):
                best = fn
                break
        if best is None:
            raise TypeError(f"no matching method for {self.__name__}")
        return best(*args, **kw)

    def __get__(self, obj, cls=None):
        if obj is None:
            return self
        return types.MethodType(self, obj)
