"""math stand-in: exact where the engine needs exactness."""
import math as _m
from fractions import Fraction

from .. import alg
from ..alg import Ang, Sx

pi = Ang({}, Fraction(1))
inf = _m.inf
e = _m.e


def sqrt(x):
    return alg.spow(x, Fraction(1, 2))


def cos(x):
    return alg.ang_cos(x)


def sin(x):
    return alg.ang_sin(x)


def log10(x):
    if isinstance(x, Sx) and not x.is_const():
        return alg.log10(x)
    return _m.log10(float(x))


def factorial(n):
    return _m.factorial(int(n))


def __getattr__(name):
    return getattr(_m, name)
