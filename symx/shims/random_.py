"""random stand-in (see nprandom_)."""
import random as _r

HOOK = [None]


def random():
    if HOOK[0] is not None:
        return HOOK[0].random()
    return _r.random()


def seed(s=None):
    if HOOK[0] is not None:
        return HOOK[0].seed(s)
    return _r.seed(s)


def __getattr__(name):
    return getattr(_r, name)
