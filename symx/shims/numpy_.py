"""numpy proxy: structural work is done by real numpy on dtype=object arrays
of symbolic scalars; scalar functions dispatch to the symbolic algebra."""
import builtins
import math as _math
from fractions import Fraction

import numpy as _np

from .. import alg
from ..alg import Ang, Cond, IAng, Sx, Unsupported, mkbool
from . import nprandom_ as random  # noqa: F401

ndarray = _np.ndarray
inf = _np.inf
pi = Ang({}, Fraction(1))
e = _np.e
newaxis = None
complex128 = complex
float64 = float


def __getattr__(name):
    return getattr(_np, name)


def _symb(x):
    return isinstance(x, (Sx, Ang, IAng))


def _objectify(a):
    """float/complex arrays -> object arrays of exact constants."""
    if isinstance(a, _np.ndarray) and a.dtype.kind in "fc":
        out = _np.empty(a.shape, dtype=object)
        for idx in _np.ndindex(a.shape):
            v = a[idx]
            v = complex(v) if a.dtype.kind == "c" else float(v)
            if isinstance(v, complex) and v.imag == 0:
                v = v.real
            if isinstance(v, float) and v == int(v) and abs(v) < 1 << 50:
                out[idx] = int(v)
            else:
                out[idx] = alg.const(v)
        return out
    return a


def _numeric_dtype(dt):
    if dt is None:
        return False
    if dt in (complex, float, _np.complex128, _np.float64, "complex", "float"):
        return True
    try:
        return _np.dtype(dt).kind in "fc"
    except TypeError:
        return False


CLIP_HOOK = [None]


class OArr(_np.ndarray):
    """object ndarray whose clip() can be intercepted by a harness (numpy's
    own clip on symbolic entries would fork on every element)"""

    def __array_wrap__(self, arr, context=None, return_scalar=False):
        # reductions of an object-array subclass come back as 0-d arrays: unwrap them
        if arr.ndim == 0:
            return arr[()]
        return arr.view(OArr) if isinstance(arr, _np.ndarray) else arr

    def sum(self, *a, **k):
        r = _np.ndarray.sum(self.view(_np.ndarray), *a, **k)
        return r.view(OArr) if isinstance(r, _np.ndarray) and r.ndim else (r[()] if isinstance(r, _np.ndarray) else r)

    def clip(self, a_min=None, a_max=None, *a, **k):
        if CLIP_HOOK[0] is not None:
            return CLIP_HOOK[0](self, a_min, a_max)
        return _np.ndarray.clip(self.view(_np.ndarray), a_min, a_max, *a, **k)


def identity(n, dtype=None):
    if dtype is None or _numeric_dtype(dtype):
        return _np.identity(int(n), dtype=object)
    return _np.identity(n, dtype=dtype)


def eye(n, *a, dtype=None, **k):
    if dtype is None or _numeric_dtype(dtype):
        return _np.eye(int(n), *a, dtype=object, **k)
    return _np.eye(n, *a, dtype=dtype, **k)


def zeros(shape, dtype=None, **k):
    if dtype is None or _numeric_dtype(dtype):
        out = _np.empty(shape, dtype=object)
        out.fill(0)
        return out.view(OArr)
    return _np.zeros(shape, dtype=dtype, **k)


def ones(shape, dtype=None, **k):
    if dtype is None or _numeric_dtype(dtype):
        out = _np.empty(shape, dtype=object)
        out.fill(1)
        return out
    return _np.ones(shape, dtype=dtype, **k)


def full(shape, fill_value, dtype=None, **k):
    out = _np.empty(shape, dtype=object)
    out.fill(fill_value)
    return out


def zeros_like(a, dtype=None, **k):
    return zeros(_np.shape(a), dtype=dtype)


def _has_sym(x):
    if _symb(x):
        return True
    if isinstance(x, (list, tuple)):
        return builtins.any(_has_sym(i) for i in x)
    if isinstance(x, _np.ndarray) and x.dtype == object:
        return True
    return False


def array(x, dtype=None, **k):
    k.pop("copy", None)
    if _numeric_dtype(dtype) or (dtype is None and _has_sym(x)):
        if isinstance(x, _np.ndarray):
            return _objectify(x.copy()) if x.dtype != object else x.copy()
        return _objectify(_asobj(x))
    if dtype is None:
        return _objectify(_np.array(x, **k))
    return _np.array(x, dtype=dtype, **k)


def _asobj(x):
    """nested list -> object ndarray without numpy trying to coerce scalars."""
    probe = x
    shape = []
    while isinstance(probe, (list, tuple)) or (isinstance(probe, _np.ndarray) and probe.ndim > 0):
        shape.append(len(probe))
        if len(probe) == 0:
            break
        probe = probe[0]
    out = _np.empty(tuple(shape), dtype=object)
    if not shape:
        out[()] = x
        return out
    for idx in _np.ndindex(*shape):
        v = x
        for i in idx:
            v = v[i]
        if isinstance(v, (float, complex)) and not isinstance(v, bool):
            v = _exactify(v)
        elif isinstance(v, _np.generic):
            v = _exactify(v.item())
        out[idx] = v
    return out


def _exactify(v):
    if isinstance(v, complex):
        if v.imag == 0:
            v = v.real
        else:
            return alg.const(v)
    if isinstance(v, float):
        if v == _math.floor(v) and abs(v) < 1 << 50:
            return int(v)
        return alg.const(v)
    return v


def asarray(x, dtype=None, **k):
    if isinstance(x, _np.ndarray) and dtype is None:
        return _objectify(x)
    return array(x, dtype=dtype)


def _map(f, x):
    if isinstance(x, (list, tuple)):
        x = array(x)
    if isinstance(x, _np.ndarray):
        out = _np.empty(x.shape, dtype=object)
        for idx in _np.ndindex(x.shape):
            out[idx] = f(x[idx])
        return out
    if isinstance(x, _np.generic):
        x = x.item()
    return f(x)


def sqrt(x):
    return _map(lambda v: alg.spow(v, Fraction(1, 2)) if not isinstance(v, Ang) else alg.spow(v.as_real(), Fraction(1, 2)), x)


def cos(x):
    return _map(alg.ang_cos, x)


def sin(x):
    return _map(alg.ang_sin, x)


def exp(x):
    return _map(alg.sexp, x)


def arccos(x):
    return _map(alg.sarccos, x)


def _arctan(v):
    if isinstance(v, float) and not (v == 0 or v == 1 or v == -1):
        return alg._float_angle(_math.atan(v))
    return alg.sarctan(v)


def arctan(x):
    return _map(_arctan, x)


def _angle(v):
    if isinstance(v, (int, float)) or (isinstance(v, Sx) and v.is_const() and not v.im):
        f = float(v)
        return Ang({}, 0) if f >= 0 else Ang({}, 1)
    if isinstance(v, complex):
        return alg._float_angle(_math.atan2(v.imag, v.real))
    if isinstance(v, Sx):
        # angle of z: unit phasor z/|z| ; requires z != 0
        return alg_angle(v)
    raise Unsupported(f"angle of {type(v)}")


def alg_angle(z: Sx):
    if z.is_const():
        r, i = alg.approx(z)
        if abs(r) < 1e-300 and abs(i) < 1e-300:
            return Ang({}, 0)
    h = alg.ssqrt(z.abs2())
    nz = h != 0
    if not nz:
        return Ang({}, 0)  # numpy: angle(0) == 0
    hi = h.reciprocal()
    alg._ARC[0] += 1
    aa = alg.AngAtom(f"angle#{alg._ARC[0]}", (Sx(z.re) * hi).re, (Sx(z.im) * hi).re, rng="(-pi,pi]")
    return Ang({aa: 1}, 0)


def angle(x):
    return _map(_angle, x)


def real(x):
    return _map(lambda v: v.real if isinstance(v, (Sx, complex)) else v, x)


def imag(x):
    return _map(lambda v: v.imag if isinstance(v, (Sx, complex)) else 0, x)


def conj(x):
    return _map(lambda v: v.conjugate() if isinstance(v, (Sx, complex)) else v, x)


conjugate = conj


def abs(x):  # noqa: A001
    return _map(builtins.abs, x)


absolute = abs


def _close_cond(a, b, rtol, atol):
    d = alg.const(a) - alg.const(b) if not (isinstance(a, Sx) or isinstance(b, Sx)) else a - b
    if not isinstance(d, Sx):
        d = alg.const(d)
    tol = alg.const(atol)
    if rtol:
        tol = tol + alg.const(rtol) * alg.sabs(alg.const(b) if not isinstance(b, Sx) else b)
    if d.is_zero():
        return Cond("true")
    # |d|^2 <= tol^2  (tol >= 0)
    lhs = d.abs2() - tol * tol
    return Cond("<=", lhs.re)


def allclose(a, b, rtol=1e-05, atol=1e-08, equal_nan=False):
    a = asarray(a) if not _symb(a) else a
    b = asarray(b) if not _symb(b) else b
    aa, bb = _np.broadcast_arrays(_np.asarray(a, dtype=object), _np.asarray(b, dtype=object))
    conds = []
    for idx in _np.ndindex(aa.shape):
        c = _close_cond(aa[idx], bb[idx], rtol, atol)
        v = c.const_value()
        if v is False:
            return False
        if v is None:
            conds.append(c)
    if not conds:
        return True
    return bool(mkbool(Cond("and", *conds)))


def isclose(a, b, rtol=1e-05, atol=1e-08, equal_nan=False):
    if isinstance(a, _np.ndarray) or isinstance(b, _np.ndarray):
        aa, bb = _np.broadcast_arrays(_np.asarray(a, dtype=object), _np.asarray(b, dtype=object))
        out = _np.empty(aa.shape, dtype=bool)
        for idx in _np.ndindex(aa.shape):
            out[idx] = bool(mkbool(_close_cond(aa[idx], bb[idx], rtol, atol)))
        return out
    return bool(mkbool(_close_cond(a, b, rtol, atol)))


def round(x, decimals=0):  # noqa: A001
    def f(v):
        if isinstance(v, Sx):
            if v.is_const():
                if v.im:
                    r, i = alg.approx(v)
                    return complex(builtins.round(r, decimals), builtins.round(i, decimals))
                return builtins.round(float(v), decimals)
            raise Unsupported("round of a symbolic value")
        return builtins.round(v, decimals)
    return _map(f, x)


around = round


def log(x):
    def f(v):
        if isinstance(v, Sx) and v.is_const() and not v.im:
            return _math.log(float(v))
        if isinstance(v, (int, float)):
            return _math.log(v)
        raise Unsupported("log of a symbolic value")
    return _map(f, x)


def log10(x):
    def f(v):
        if isinstance(v, Sx) and not v.is_const():
            return alg.log10(v)
        return _math.log10(float(v))
    return _map(f, x)


def prod(x, *a, **k):
    if isinstance(x, (list, tuple)) and builtins.all(isinstance(i, int) for i in x):
        return _math.prod(x)
    return _np.prod(_np.asarray(x, dtype=object) if _has_sym(x) else x, *a, **k)


def sum(x, *a, **k):  # noqa: A001
    return _np.sum(_np.asarray(x, dtype=object) if _has_sym(x) else x, *a, **k)


def mean(x, *a, **k):
    arr = _np.asarray(x, dtype=object)
    if a or k:
        return _np.mean(arr, *a, **k)
    tot = 0
    for v in arr.flat:
        tot = tot + v
    return alg.const(tot) / arr.size if arr.size else _np.nan


def trace(x, *a, **k):
    return _np.trace(x, *a, **k)


def kron(a, b):
    a = _np.asarray(a, dtype=object)
    b = _np.asarray(b, dtype=object)
    if a.ndim == 2 and b.ndim == 2:
        out = _np.empty((a.shape[0] * b.shape[0], a.shape[1] * b.shape[1]), dtype=object)
        for i in range(a.shape[0]):
            for j in range(a.shape[1]):
                for k in range(b.shape[0]):
                    for l in range(b.shape[1]):
                        out[i * b.shape[0] + k, j * b.shape[1] + l] = a[i, j] * b[k, l]
        return out
    return _np.kron(a, b)


class _Emath:
    @staticmethod
    def sqrt(x):
        return sqrt(x)

    def __getattr__(self, n):
        return getattr(_np.emath, n)


emath = _Emath()


def _gauss_rational(x):
    """object array of constant scalars -> (re, im) arrays of Fractions"""
    re = _np.empty(x.shape, dtype=object)
    im = _np.empty(x.shape, dtype=object)
    for idx in _np.ndindex(x.shape):
        v = x[idx]
        if isinstance(v, Sx):
            if not v.is_const():
                raise Unsupported("certified linear algebra needs a constant rational matrix")
            c = v.const()
            re[idx], im[idx] = (c if isinstance(c, tuple) else (c, Fraction(0)))
        elif isinstance(v, complex):
            re[idx], im[idx] = alg.to_fraction(v.real), alg.to_fraction(v.imag)
        else:
            re[idx], im[idx] = alg.to_fraction(v), Fraction(0)
    return re, im


def _scale_int(re, im):
    den = 1
    for a in list(re.flat) + list(im.flat):
        den = den * a.denominator // _math.gcd(den, a.denominator)
    R = _np.array([[int(v * den) for v in row] for row in re.tolist()], dtype=_np.int64).reshape(re.shape)
    I = _np.array([[int(v * den) for v in row] for row in im.tolist()], dtype=_np.int64).reshape(im.shape)
    return R, I, den


def _cmul(Ar, Ai, Br, Bi):
    return Ar @ Br - Ai @ Bi, Ar @ Bi + Ai @ Br


def _rationalise(M, maxden=10**6):
    re = _np.empty(M.shape, dtype=object)
    im = _np.empty(M.shape, dtype=object)
    for idx in _np.ndindex(M.shape):
        z = complex(M[idx])
        re[idx] = Fraction(z.real).limit_denominator(maxden)
        im[idx] = Fraction(z.imag).limit_denominator(maxden)
    return re, im


def _to_sx_array(re, im):
    out = _np.empty(re.shape, dtype=object)
    for idx in _np.ndindex(re.shape):
        r, i = re[idx], im[idx]
        if i == 0:
            out[idx] = int(r) if r.denominator == 1 else Sx(alg.pconst(r))
        else:
            out[idx] = Sx(alg.pconst(r), alg.pconst(i))
    return out


CERT = {"pinv": 0, "solve": 0}


def certified_pinv(A):
    """Moore-Penrose inverse of a constant Gaussian-rational matrix: computed
    numerically, rationalised, then certified exactly (integer arithmetic) by
    the four Penrose identities."""
    are, aim = _gauss_rational(_np.asarray(A, dtype=object))
    Ar, Ai, da = _scale_int(are, aim)
    num = _np.linalg.pinv(Ar.astype(float) / da + 1j * (Ai.astype(float) / da))
    xre, xim = _rationalise(num)
    Xr, Xi, dx = _scale_int(xre, xim)
    # A X A = A  <=>  Ar' Xr' Ar' = da*dx * Ar'   (primes: scaled)
    AXr, AXi = _cmul(Ar, Ai, Xr, Xi)
    AXAr, AXAi = _cmul(AXr, AXi, Ar, Ai)
    ok = (AXAr == da * dx * Ar).all() and (AXAi == da * dx * Ai).all()
    XAr, XAi = _cmul(Xr, Xi, Ar, Ai)
    XAXr, XAXi = _cmul(XAr, XAi, Xr, Xi)
    ok = ok and (XAXr == da * dx * Xr).all() and (XAXi == da * dx * Xi).all()
    ok = ok and (AXr == AXr.T).all() and (AXi == -AXi.T).all()
    ok = ok and (XAr == XAr.T).all() and (XAi == -XAi.T).all()
    if not ok:
        raise Unsupported("pseudo-inverse could not be certified exactly")
    CERT["pinv"] += 1
    return _to_sx_array(xre, xim)


def certified_solve(A, b):
    are, aim = _gauss_rational(_np.asarray(A, dtype=object))
    bre, bim = _gauss_rational(_np.asarray(b, dtype=object).reshape(-1, 1))
    Ar, Ai, da = _scale_int(are, aim)
    Br, Bi, db = _scale_int(bre, bim)
    num = _np.linalg.solve(Ar.astype(float) / da + 1j * (Ai.astype(float) / da), (Br.astype(float) / db + 1j * (Bi.astype(float) / db)))
    xre, xim = _rationalise(num)
    Xr, Xi, dx = _scale_int(xre, xim)
    AXr, AXi = _cmul(Ar, Ai, Xr, Xi)
    # A x = b  <=>  db * Ar' Xr' = da*dx * Br'
    if not ((db * AXr == da * dx * Br).all() and (db * AXi == da * dx * Bi).all()):
        raise Unsupported("linear solve could not be certified exactly")
    CERT["solve"] += 1
    return _to_sx_array(xre, xim).reshape(_np.asarray(b).shape)


class _Linalg:
    @staticmethod
    def pinv(A, *a, **k):
        return certified_pinv(A)

    @staticmethod
    def solve(A, b):
        return certified_solve(A, b)

    def __getattr__(self, n):
        f = getattr(_np.linalg, n)

        def wrapped(*a, **k):
            a2 = []
            for x in a:
                if isinstance(x, _np.ndarray) and x.dtype == object:
                    x = _to_numeric(x)
                a2.append(x)
            return _objectify(f(*a2, **k)) if n not in ("eigh", "eig", "svd", "norm", "det", "matrix_rank") else f(*a2, **k)
        return wrapped

    @staticmethod
    def norm(x, *a, **k):
        x = _np.asarray(x, dtype=object)
        if a or k:
            return _np.linalg.norm(_to_numeric(x), *a, **k)
        tot = 0
        for v in x.flat:
            tot = tot + (v.abs2() if isinstance(v, Sx) else alg.const(v).abs2())
        return alg.ssqrt(alg.const(tot))


def _to_numeric(x):
    """object array of *constant* scalars -> complex ndarray (certification of
    anything computed from it is the caller's job)."""
    out = _np.empty(x.shape, dtype=complex)
    for idx in _np.ndindex(x.shape):
        v = x[idx]
        if isinstance(v, Sx):
            if not v.is_const():
                raise Unsupported("numerical linear algebra on a symbolic matrix")
            out[idx] = complex(v)
        else:
            out[idx] = complex(v)
    if not out.imag.any():
        return out.real
    return out


linalg = _Linalg()
