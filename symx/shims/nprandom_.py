"""numpy.random stand-in: nondeterministic stubs are provided by symx.stubs when
a harness installs them; without a harness the real generator is used."""
import numpy.random as _r

HOOK = [None]


def default_rng(seed=None):
    if HOOK[0] is not None:
        return HOOK[0].default_rng(seed)
    return _r.default_rng(seed)


def __getattr__(name):
    if HOOK[0] is not None and hasattr(HOOK[0], name):
        return getattr(HOOK[0], name)
    return getattr(_r, name)
