"""Runtime functions injected into every instrumented lightworks module."""
import builtins
import numbers
import types
import typing
from fractions import Fraction

from . import alg
from .alg import Ang, Sx

_REALISH = (float, numbers.Number, numbers.Real, numbers.Complex, complex)
_COMPLEXISH = (numbers.Number, numbers.Complex, complex)


def _flatten(cls):
    if isinstance(cls, tuple):
        out = []
        for c in cls:
            out.extend(_flatten(c))
        return out
    if isinstance(cls, types.UnionType) or typing.get_origin(cls) is typing.Union:
        out = []
        for c in typing.get_args(cls):
            out.extend(_flatten(c))
        return out
    return [cls]


def isinstance_(obj, cls):
    t = type(obj)
    if t is Sx:
        for c in _flatten(cls):
            if c is Sx or c is object:
                return True
            if obj.is_real():
                if c in _REALISH:
                    return True
            elif c in _COMPLEXISH:
                return True
        return False
    if t is Ang:
        for c in _flatten(cls):
            if c is Ang or c is object or c in _REALISH:
                return True
        return False
    if t is Fraction:
        for c in _flatten(cls):
            if c is float:
                return True
        return builtins.isinstance(obj, cls)
    return builtins.isinstance(obj, cls)


def pow_(a, b):
    ta, tb = type(a), type(b)
    if ta in (Sx, Ang) or tb is Sx:
        return alg.spow(a, b)
    if tb is int or tb is bool:
        if ta is int or ta is bool:
            if b >= 0:
                return a**b
            return alg.spow(alg.const(a), b)
        if ta is float:
            return alg.spow(alg.const(a), b)
        return a**b
    if tb in (float, Fraction) and ta in (int, float, Fraction, bool):
        return alg.spow(alg.const(a), b)
    return a**b


def div_(a, b):
    ta, tb = type(a), type(b)
    if (ta is complex or tb is complex) and ta in (int, float, bool, Fraction, complex) and tb in (int, float, bool, Fraction, complex):
        if b == 0:
            return a / b
        return alg.const(a) / alg.const(b)
    if ta in (int, float, bool, Fraction) and tb in (int, float, bool, Fraction):
        if b == 0:
            return a / b  # let python raise
        if ta in (int, bool) and tb in (int, bool):
            q = Fraction(a, b)
            if q.denominator == 1:
                return a / b
            return Sx(alg.pconst(q))
        return alg.const(a) / alg.const(b)
    return a / b


def float_(x):
    if type(x) is Sx and not x.is_const():
        if x.im:
            raise TypeError("float() argument must be real")
        return x
    return float(x)
