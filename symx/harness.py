"""
Harness contexts.  A harness is a function fn(ctx, **case) written once,
number-type generic, and run in two modes:

 * symbolic (SymCtx): against the instrumented library, values are solver
   variables, `check*` are obligations decided by z3;
 * concrete (ConcCtx): against the plain library with floats, used to replay
   counterexamples and to validate the oracles/translator.
"""
from __future__ import annotations

import cmath
import math
import random as _random

import numpy as _np

from . import alg
from .alg import Ang, Cond, Sx, SymBool


class CheckFailed(Exception):
    pass


class ReplayEnd(BaseException):
    """the recorded path ends here (the symbolic run recorded its
    counterexample before the next fork)"""


# ---------------------------------------------------------------------------
# math helpers, symbolic flavour
# ---------------------------------------------------------------------------


class SymMath:
    I = alg.I  # noqa: E741
    symbolic = True

    @staticmethod
    def const(x):
        return alg.const(x)

    @staticmethod
    def frac(a, b):
        from fractions import Fraction
        return alg.const(Fraction(a, b))

    @staticmethod
    def sqrt(x):
        return alg.spow(x, 0.5)

    @staticmethod
    def cos(a):
        return alg.ang_cos(a)

    @staticmethod
    def sin(a):
        return alg.ang_sin(a)

    @staticmethod
    def expi(a):
        return alg.IAng(alg._to_ang(a)).exp()

    @staticmethod
    def conj(x):
        return x.conjugate() if isinstance(x, (Sx, complex)) else x

    @staticmethod
    def abs2(x):
        return alg.const(x).abs2()

    @staticmethod
    def real(x):
        return alg.const(x).real

    @staticmethod
    def imag(x):
        return alg.const(x).imag

    pi = Ang({}, 1)

    @staticmethod
    def zeros(shape):
        out = _np.empty(shape, dtype=object)
        out.fill(0)
        return out

    @staticmethod
    def eye(n):
        return _np.identity(n, dtype=object)

    @staticmethod
    def dagger(m):
        out = _np.empty((m.shape[1], m.shape[0]), dtype=object)
        for i in range(m.shape[0]):
            for j in range(m.shape[1]):
                v = m[i, j]
                out[j, i] = v.conjugate() if isinstance(v, (Sx, complex)) else v
        return out


class ConcMath:
    I = 1j  # noqa: E741
    symbolic = False
    pi = math.pi

    @staticmethod
    def const(x):
        return x

    @staticmethod
    def frac(a, b):
        return a / b

    @staticmethod
    def sqrt(x):
        if isinstance(x, complex):
            return cmath.sqrt(x)
        return math.sqrt(x) if x >= 0 else cmath.sqrt(x)

    @staticmethod
    def cos(a):
        return math.cos(a)

    @staticmethod
    def sin(a):
        return math.sin(a)

    @staticmethod
    def expi(a):
        return cmath.exp(1j * a)

    @staticmethod
    def conj(x):
        return x.conjugate() if isinstance(x, complex) else x

    @staticmethod
    def abs2(x):
        return abs(x) ** 2

    @staticmethod
    def real(x):
        return x.real if isinstance(x, complex) else x

    @staticmethod
    def imag(x):
        return x.imag if isinstance(x, complex) else 0.0

    @staticmethod
    def zeros(shape):
        return _np.zeros(shape, dtype=complex)

    @staticmethod
    def eye(n):
        return _np.identity(n, dtype=complex)

    @staticmethod
    def dagger(m):
        return _np.conj(m.T)


# ---------------------------------------------------------------------------
# contexts
# ---------------------------------------------------------------------------


def _flat_pairs(a, b):
    """yield (index, a_i, b_i) for scalars / arrays / dict-free sequences."""
    if isinstance(a, _np.ndarray) or isinstance(b, _np.ndarray) or isinstance(a, (list, tuple)) or isinstance(b, (list, tuple)):
        aa = _np.asarray(a, dtype=object)
        bb = _np.asarray(b, dtype=object)
        if aa.shape != bb.shape:
            yield ("shape", aa.shape, bb.shape)
            return
        for idx in _np.ndindex(aa.shape):
            yield (idx, aa[idx], bb[idx])
    else:
        yield ((), a, b)


class SymCtx:
    symbolic = True
    m = SymMath

    def __init__(self, explorer, lw):
        self.ex = explorer
        self.lw = lw
        from .shims import numpy_
        self.np = numpy_

    # -- inputs --
    def real(self, name, lo=None, hi=None):
        return alg.var(name, lo, hi)

    def angle(self, name, divisor=1):
        return alg.angle(name, divisor)

    def choice(self, label, options):
        options = list(options)
        return options[self.ex.choice(label, len(options))]

    def cmatrix(self, name, rows, cols=None, lo=None, hi=None):
        cols = rows if cols is None else cols
        out = _np.empty((rows, cols), dtype=object)
        for i in range(rows):
            for j in range(cols):
                out[i, j] = alg.var(f"{name}r{i}{j}", lo, hi) + alg.I * alg.var(f"{name}i{i}{j}", lo, hi)
        return out

    def unitary2(self, name):
        """exactly unitary 2x2 for all angle values"""
        a, b, c = self.angle(name + "a"), self.angle(name + "b"), self.angle(name + "c")
        m = self.m
        out = _np.empty((2, 2), dtype=object)
        out[0, 0] = m.cos(a)
        out[0, 1] = -m.expi(b) * m.sin(a)
        out[1, 0] = m.expi(c) * m.sin(a)
        out[1, 1] = m.expi(b + c) * m.cos(a)
        return out

    def assume(self, b):
        self.ex.assume(b)

    # -- outputs --
    def reached(self, label="assert"):
        self.ex.stats["reached"] += 1

    def check(self, b, label, info=None):
        self.reached()
        if isinstance(b, SymBool):
            c = b.cond
        elif isinstance(b, Cond):
            c = b
        else:
            c = Cond("true") if b else Cond("false")
        return self.ex.check_cond(c, label, info)

    def check_eq(self, a, b, label, info=None):
        conds = []
        rawpairs = []
        for idx, x, y in _flat_pairs(a, b):
            if idx == "shape":
                return self.check(False, label, {"shape": (x, y)})
            if alg.RAW[0] and (isinstance(x, Sx) or isinstance(y, Sx)):
                rawpairs.append((alg.const(x), alg.const(y)))
            d = alg.const(x) - alg.const(y) if not isinstance(x, Sx) else x - y
            if not isinstance(d, Sx):
                d = alg.const(d)
            re = alg.clear_inv(d.re)
            im = alg.clear_inv(d.im)
            if re:
                conds.append(Cond("==", re))
            if im:
                conds.append(Cond("==", im))
        if not conds:
            if rawpairs:
                self.ex.raw_crosscheck(rawpairs, label)
            return self.check(True, label, info)
        return self.check(Cond("and", *conds) if len(conds) > 1 else conds[0], label, info)

    def fail(self, label, info=None):
        return self.check(False, label, info)

    def check_close(self, a, b, tol, label, info=None):
        """entrywise |a - b| <= tol (exact zero residuals are discharged syntactically)"""
        conds = []
        t = alg.const(tol)
        for idx, x, y in _flat_pairs(a, b):
            if idx == "shape":
                return self.check(False, label, {"shape": (x, y)})
            d = alg.const(x) - alg.const(y)
            if alg.is_zero(d):
                continue
            conds.append(Cond("<=", (d.abs2() - t * t).re))
        if not conds:
            return self.check(True, label, info)
        return self.check(Cond("and", *conds) if len(conds) > 1 else conds[0], label, info)

    def le(self, a, b):
        """a <= b (exact)"""
        return alg.const(a) <= alg.const(b)

    def ge(self, a, b):
        return alg.const(a) >= alg.const(b)

    def is_zero(self, x):
        return alg.is_zero(x)


class ConcCtx:
    symbolic = False
    m = ConcMath

    def __init__(self, lw, values=None, choices=None, seed=0, tol=1e-6):
        self.lw = lw
        self.np = _np
        self.values = values or {}
        self.choices = list(choices) if choices is not None else None
        self.rng = _random.Random(seed)
        self.tol = tol
        self.failed = []
        self.n_checks = 0
        self.used_values = {}

    def real(self, name, lo=None, hi=None):
        if name in self.used_values:
            return self.used_values[name]
        if name in self.values:
            v = float(self.values[name])
        else:
            a = -2.0 if lo is None else float(lo)
            b = 2.0 if hi is None else float(hi)
            v = self.rng.uniform(a, b)
        self.used_values[name] = v
        return v

    def angle(self, name, divisor=1):
        cn = f"cos[{name}/{divisor}]" if divisor != 1 else f"cos[{name}]"
        sn = f"sin[{name}/{divisor}]" if divisor != 1 else f"sin[{name}]"
        if name in self.used_values:
            return self.used_values[name]
        if name in self.values:
            v = float(self.values[name])
        elif cn in self.values or sn in self.values:
            c = self.values.get(cn, 0.0)
            s = self.values.get(sn, 0.0)
            if abs(c * c + s * s - 1) > 1e-6:
                # only one of the pair was constrained by the model
                if cn in self.values and sn not in self.values:
                    s = math.sqrt(max(0.0, 1 - c * c))
                elif sn in self.values and cn not in self.values:
                    c = math.sqrt(max(0.0, 1 - s * s))
            v = divisor * math.atan2(s, c)
        else:
            v = self.rng.uniform(-math.pi, math.pi)
        self.used_values[name] = v
        return v

    def choice(self, label, options):
        options = list(options)
        if self.choices is not None:
            if not self.choices:
                raise ReplayEnd()
            return options[self.choices.pop(0)]
        return self.rng.choice(options)

    def cmatrix(self, name, rows, cols=None, lo=None, hi=None):
        cols = rows if cols is None else cols
        out = _np.empty((rows, cols), dtype=complex)
        for i in range(rows):
            for j in range(cols):
                out[i, j] = self.real(f"{name}r{i}{j}", lo, hi) + 1j * self.real(f"{name}i{i}{j}", lo, hi)
        return out

    def unitary2(self, name):
        a, b, c = self.angle(name + "a"), self.angle(name + "b"), self.angle(name + "c")
        m = self.m
        out = _np.empty((2, 2), dtype=complex)
        out[0, 0] = m.cos(a)
        out[0, 1] = -m.expi(b) * m.sin(a)
        out[1, 0] = m.expi(c) * m.sin(a)
        out[1, 1] = m.expi(b + c) * m.cos(a)
        return out

    def assume(self, b):
        if not b:
            raise alg.Unsupported("assumption not met by concrete values")

    def reached(self, label="assert"):
        pass

    def check(self, b, label, info=None):
        self.n_checks += 1
        if not bool(b):
            self.failed.append({"label": label, "info": info})
            return False
        return True

    def check_eq(self, a, b, label, info=None):
        self.n_checks += 1
        worst = 0.0
        for idx, x, y in _flat_pairs(a, b):
            if idx == "shape":
                self.failed.append({"label": label, "info": f"shape {x} vs {y}"})
                return False
            worst = max(worst, abs(complex(x) - complex(y)))
        if worst > self.tol:
            self.failed.append({"label": label, "info": info, "max_abs_diff": worst})
            return False
        return True

    def fail(self, label, info=None):
        return self.check(False, label, info)

    def check_close(self, a, b, tol, label, info=None):
        return self.check_eq(a, b, label, info)

    def le(self, a, b):
        """a <= b up to the replay tolerance (float rounding is outside the claim)"""
        return float(a) <= float(b) + self.tol

    def ge(self, a, b):
        return float(a) >= float(b) - self.tol

    def is_zero(self, x):
        return abs(complex(x)) <= self.tol
