"""
CrossHair driver: one `crosshair check` process per condition, verdict
parsing, automatic reachability twins, replay of counterexamples on plain
CPython.

A condition is a private function in a harness file under /verif/xh/ that
takes symbolic ints/lists/... , carries PEP-316 `pre:` lines for its bounds
and `post: _` and returns True iff the property held on that input.
"""
from __future__ import annotations

import ast
import hashlib
import json
import os
import re
import subprocess
import sys
import time
from concurrent.futures import ThreadPoolExecutor

VERIF = os.path.dirname(os.path.dirname(os.path.abspath(__file__)))
PY = os.path.join(VERIF, ".venv", "bin", "python")
WORK = os.path.join(VERIF, ".work", "xh")


def _func_line(path, func):
    tree = ast.parse(open(path).read())
    for node in ast.walk(tree):
        if isinstance(node, ast.FunctionDef) and node.name == func:
            return node.lineno + 1
    raise KeyError(f"{func} not in {path}")


def _make_twin(path, func):
    """Copy of the harness file in which `func`'s postcondition is negated:
    CrossHair must refute it, which shows the precondition is satisfiable and
    the function returns normally on some input (reachability witness)."""
    src = open(path).read()
    tree = ast.parse(src)
    lines = src.splitlines()
    for node in ast.walk(tree):
        if isinstance(node, ast.FunctionDef) and node.name == func:
            doc = node.body[0]
            for ln in range(doc.lineno - 1, doc.end_lineno):
                if lines[ln].strip().startswith("post:"):
                    lines[ln] = lines[ln].replace("post:", "post: not (", 1) + ")"
    os.makedirs(WORK, exist_ok=True)
    out = os.path.join(WORK, f"twin_{os.path.basename(path)[:-3]}_{func}.py")
    with open(out, "w") as f:
        f.write("\n".join(lines) + "\n")
    return out


_VERDICT = [
    ("Confirmed over all paths", "confirmed"),
    ("Not confirmed", "not_confirmed"),
    ("Unable to meet precondition", "no_precondition"),
]


def _run_one(path, func, timeout_s, repo, extra_env=None):
    line = _func_line(path, func)
    env = dict(os.environ)
    env["PYTHONPATH"] = os.pathsep.join([repo, os.path.join(VERIF, "xh"), VERIF])
    env["MPLBACKEND"] = "Agg"
    env["PYTHONDONTWRITEBYTECODE"] = "1"
    env["PYTHONHASHSEED"] = "0"
    if extra_env:
        env.update(extra_env)
    cmd = [PY, "-m", "crosshair", "check", "--report_all", "--per_condition_timeout", str(timeout_s),
           "--per_path_timeout", str(max(5, timeout_s // 4)), f"{path}:{line}"]
    t0 = time.time()
    try:
        p = subprocess.run(cmd, capture_output=True, text=True, env=env, timeout=timeout_s * 2 + 120, cwd=os.path.join(VERIF, "xh"))
        out = p.stdout + p.stderr
    except subprocess.TimeoutExpired as e:
        out = "TIMEOUT " + str(e)
    wall = time.time() - t0
    verdict, detail = "error", out.strip()[-800:]
    for ln in out.splitlines():
        if ": error:" in ln:
            return {"verdict": "refuted", "line": ln.strip(), "wall_s": round(wall, 1)}
    for ln in out.splitlines():
        for pat, v in _VERDICT:
            if pat in ln:
                return {"verdict": v, "line": ln.strip(), "wall_s": round(wall, 1)}
    return {"verdict": verdict, "detail": detail, "line": detail[-200:], "wall_s": round(wall, 1)}


_CALL = re.compile(r"when calling (\w+)\((.*)\)(?: \(which returns|$)")


def _parse_call(line, func):
    i = line.find(f"when calling {func}(")
    if i < 0:
        return None
    s = line[i + len(f"when calling {func}("):]
    # strip trailing " (which returns ...)" and the closing parenthesis
    j = s.rfind(" (which returns")
    if j >= 0:
        s = s[:j]
    s = s.rstrip()
    if s.endswith(")"):
        s = s[:-1]
    return s


def replay_call(path, func, argstr, repo):
    """Run the harness function on plain CPython with the printed arguments."""
    code = f"""
import sys, os
sys.path[:0] = [{repo!r}, {os.path.join(VERIF, 'xh')!r}, {VERIF!r}]
os.environ.setdefault('MPLBACKEND', 'Agg')
import importlib.util
spec = importlib.util.spec_from_file_location('xh_mod', {path!r})
m = importlib.util.module_from_spec(spec); spec.loader.exec_module(m)
try:
    r = m.{func}({argstr})
except BaseException as e:
    print('REPLAY-RESULT reproduced (exception %s: %s)' % (type(e).__name__, e)); sys.exit(1)
if r:
    print('REPLAY-RESULT not-reproduced'); sys.exit(0)
print('REPLAY-RESULT reproduced (returned %r)' % (r,)); sys.exit(1)
"""
    p = subprocess.run([PY, "-c", code], capture_output=True, text=True, timeout=300, env=dict(os.environ, MPLBACKEND="Agg", PYTHONDONTWRITEBYTECODE="1"))
    return p.returncode == 1 and "REPLAY-RESULT reproduced" in p.stdout, (p.stdout + p.stderr)[-500:]


def replay_main(rp):
    ok, out = replay_call(rp["file"], rp["func"], rp["args"], rp["repo"])
    print(out)
    return 1 if ok else 0


def run_conditions(conds, repo, jobs, tier):
    """conds: list of dict(name, file, func, timeout, key?)."""
    results = []

    def work(c):
        path = os.path.join(VERIF, c["file"])
        r = _run_one(path, c["func"], c["timeout"], repo)
        r.update(name=c["name"], timeout_s=c["timeout"], func=c["func"], file=path)
        if r["verdict"] == "refuted":
            argstr = _parse_call(r["line"], c["func"])
            r["args"] = argstr
            if argstr is not None:
                ok, out = replay_call(path, c["func"], argstr, repo)
                r["replayed"] = True
                r["reproduced"] = ok
                r["replay_out"] = out
                if ok:
                    # key of the finding: the harness may classify the input
                    r["cex_key"] = _classify(path, c["func"], argstr, repo)
                    rp = {"engine": "crosshair", "file": path, "func": c["func"], "args": argstr, "repo": repo, "line": r["line"]}
                    d = os.path.join(VERIF, "replays", c.get("prop", "xh"))
                    os.makedirs(d, exist_ok=True)
                    dg = hashlib.sha256(json.dumps(rp, sort_keys=True).encode()).hexdigest()[:12]
                    r["replay"] = os.path.join(d, f"{dg}.json")
                    with open(r["replay"], "w") as f:
                        json.dump(rp, f, indent=1)
            else:
                r["reproduced"] = False
        if c.get("twin", True) and r["verdict"] in ("confirmed", "not_confirmed", "no_precondition"):
            tw = _make_twin(path, c["func"])
            t = _run_one(tw, c["func"], min(c["timeout"], 60), repo)
            r["twin"] = t["verdict"]
        return r

    with ThreadPoolExecutor(max_workers=max(1, jobs)) as ex:
        for r in ex.map(work, conds):
            results.append(r)
    return results


def _classify(path, func, argstr, repo):
    """Optional: harness module may define classify_<func>(**args) -> str."""
    code = f"""
import sys, os
sys.path[:0] = [{repo!r}, {os.path.join(VERIF, 'xh')!r}, {VERIF!r}]
import importlib.util
spec = importlib.util.spec_from_file_location('xh_mod', {path!r})
m = importlib.util.module_from_spec(spec); spec.loader.exec_module(m)
f = getattr(m, 'classify_{func}', None)
print('KEY=' + (f({argstr}) if f else ''))
"""
    try:
        p = subprocess.run([PY, "-c", code], capture_output=True, text=True, timeout=120, env=dict(os.environ, MPLBACKEND="Agg"))
        for ln in p.stdout.splitlines():
            if ln.startswith("KEY="):
                return ln[4:]
    except Exception:
        pass
    return ""
