"""
symx.alg -- exact scalar algebra used by the symbolic executor.

A scalar (class Sx) is a complex number whose real and imaginary parts are
multivariate polynomials over Q in *atoms*.  Atom kinds:

  var   free real variable (range constraints are kept by the explorer)
  root  s >= 0 with s*s == p  (p a polynomial in older atoms)
  inv   v with d*v == 1       (d a polynomial in older atoms, d != 0)
  cos   c of an angle atom    (-1 <= c <= 1)
  sin   s of an angle atom    (s*s == 1 - c*c)
  fn    uninterpreted value (e.g. log10 of something); axioms added by user

Polynomials are kept in a normal form in which root atoms have exponent < 2
and sin atoms have exponent < 2 (rewrites  s^2 -> p,  sin^2 -> 1 - cos^2).
These rewrites are equivalences under the atom constraints, which are always
handed to the solver together with any query that mentions the atom.
"""
from __future__ import annotations

import math
import numbers
from fractions import Fraction

# --------------------------------------------------------------------------
# atoms
# --------------------------------------------------------------------------


class Atom:
    __slots__ = ("id", "kind", "name", "rdeg", "rpoly", "data", "lo", "hi")

    def __init__(self, kind, name, rdeg=0, rpoly=None, data=None):
        self.id = len(ATOMS)
        self.kind = kind
        self.name = name
        self.rdeg = rdeg  # exponent at which the rewrite applies (0: none)
        self.rpoly = rpoly  # Poly dict replacing atom**rdeg
        self.data = data
        self.lo = None
        self.hi = None
        ATOMS.append(self)

    def __repr__(self):
        return self.name


ATOMS: list[Atom] = []
_ROOTS: dict = {}
_INVS: dict = {}
_MM: dict = {}
_VARS: dict = {}
_FNS: dict = {}

STATS = {"float_leaks": 0, "mono_mul": 0}


class Unsupported(BaseException):
    """Raised when the engine meets something it cannot model; the path is
    counted as aborted, never as a pass and never as a violation.  Derives
    from BaseException so that the library's own `except Exception` blocks
    cannot swallow it."""


class OutOfBound(Unsupported):
    """The path left the stated bounds (e.g. more loop iterations than the
    unrolling bound): counted separately, neither pass nor violation."""


def reset():
    """Forget all atoms (used between independent jobs)."""
    ATOMS.clear()
    _ROOTS.clear()
    _INVS.clear()
    _MM.clear()
    _VARS.clear()
    _FNS.clear()
    _ANG_ATOMS.clear()
    _FLOAT_ANGLES.clear()
    _SQ.clear()


# --------------------------------------------------------------------------
# polynomials: dict  monomial -> Fraction ; monomial = tuple((atom_id, exp)..)
# --------------------------------------------------------------------------

_ONE = ()
F0 = Fraction(0)
F1 = Fraction(1)


def _reduce_mono(d: dict) -> dict:
    for a, e in d.items():
        at = ATOMS[a]
        if at.rdeg and e >= at.rdeg:
            q, rem = divmod(e, at.rdeg)
            rest = dict(d)
            if rem:
                rest[a] = rem
            else:
                del rest[a]
            base = _reduce_mono(rest)
            rp = at.rpoly
            acc = {_ONE: F1}
            for _ in range(q):
                acc = pmul(acc, rp)
            return pmul(base, acc)
    return {tuple(sorted(d.items())): F1}


def _mono_mul(m1, m2) -> dict:
    if not m1:
        return {m2: F1}
    if not m2:
        return {m1: F1}
    key = (m1, m2) if m1 <= m2 else (m2, m1)
    r = _MM.get(key)
    if r is None:
        d = dict(m1)
        for a, e in m2:
            d[a] = d.get(a, 0) + e
        r = _reduce_mono(d)
        _MM[key] = r
        STATS["mono_mul"] += 1
    return r


def padd(p: dict, q: dict) -> dict:
    if len(p) < len(q):
        p, q = q, p
    r = dict(p)
    for m, c in q.items():
        v = r.get(m)
        if v is None:
            r[m] = c
        else:
            v = v + c
            if v:
                r[m] = v
            else:
                del r[m]
    return r


def pneg(p: dict) -> dict:
    return {m: -c for m, c in p.items()}


def pscale(p: dict, k) -> dict:
    if not k:
        return {}
    return {m: c * k for m, c in p.items()}


def pmul(p: dict, q: dict) -> dict:
    if not p or not q:
        return {}
    if len(p) == 1 and _ONE in p:
        return pscale(q, p[_ONE])
    if len(q) == 1 and _ONE in q:
        return pscale(p, q[_ONE])
    r: dict = {}
    for m1, c1 in p.items():
        for m2, c2 in q.items():
            c = c1 * c2
            for m, k in _mono_mul(m1, m2).items():
                v = r.get(m)
                if v is None:
                    r[m] = c * k
                else:
                    v = v + c * k
                    if v:
                        r[m] = v
                    else:
                        del r[m]
    return r


def pconst(c) -> dict:
    c = Fraction(c)
    return {_ONE: c} if c else {}


def patom(a: Atom) -> dict:
    return {((a.id, 1),): F1}


def p_is_const(p: dict) -> bool:
    return not p or (len(p) == 1 and _ONE in p)


def p_const_val(p: dict) -> Fraction:
    return p.get(_ONE, F0)


def pkey(p: dict):
    return frozenset(p.items())


def p_atoms(p: dict) -> set:
    s = set()
    for m in p:
        for a, _ in m:
            s.add(a)
    return s


def p_eval(p: dict, val: dict):
    """Evaluate at a valuation atom_id -> float."""
    tot = 0.0
    for m, c in p.items():
        t = float(c)
        for a, e in m:
            t *= val[a] ** e
        tot += t
    return tot


import decimal as _decimal

_DCTX = _decimal.Context(prec=120)
_DEC_EPS = _decimal.Decimal("1e-90")
_DEC_ATOM: dict = {}


def _atom_dec(i):
    a = ATOMS[i]
    v = _DEC_ATOM.get(i)
    if v is not None and v[0] is a:
        return v[1]
    if a.kind != "root":
        return None
    r = p_eval_dec(a.rpoly)
    if r is None or r < 0:
        return None
    d = _DCTX.sqrt(r)
    _DEC_ATOM[i] = (a, d)
    return d


def p_eval_dec(p: dict):
    """120-digit evaluation of an algebraic constant (root atoms only)."""
    tot = _decimal.Decimal(0)
    for m, c in p.items():
        t = _DCTX.divide(_decimal.Decimal(c.numerator), _decimal.Decimal(c.denominator))
        for a, e in m:
            v = _atom_dec(a)
            if v is None:
                return None
            for _ in range(e):
                t = _DCTX.multiply(t, v)
        tot = _DCTX.add(tot, t)
    return tot


def p_str(p: dict) -> str:
    if not p:
        return "0"
    out = []
    for m, c in sorted(p.items(), key=lambda kv: kv[0]):
        mono = "*".join(
            (ATOMS[a].name if e == 1 else f"{ATOMS[a].name}^{e}") for a, e in m
        )
        if mono:
            out.append(f"{c}*{mono}" if c != 1 else mono)
        else:
            out.append(str(c))
    return " + ".join(out)


def closure(atom_ids) -> list:
    """All atoms reachable from the given ones through definitions."""
    seen = set()
    stack = list(atom_ids)
    while stack:
        a = stack.pop()
        if a in seen:
            continue
        seen.add(a)
        at = ATOMS[a]
        if at.kind == "root":
            stack.extend(p_atoms(at.rpoly))
        elif at.kind == "inv":
            stack.extend(p_atoms(at.data))
        elif at.kind == "sin":
            stack.append(at.data)  # its cos atom id
        elif at.kind == "fn":
            for q in at.data[1]:
                stack.extend(p_atoms(q))
    return sorted(seen)


# --------------------------------------------------------------------------
# exact conversion of python numbers
# --------------------------------------------------------------------------


def to_fraction(x) -> Fraction:
    if isinstance(x, Fraction):
        return x
    if isinstance(x, bool):
        return Fraction(int(x))
    if isinstance(x, numbers.Integral):
        return Fraction(int(x))
    if isinstance(x, numbers.Real):
        x = float(x)
        if x != x or x in (math.inf, -math.inf):
            raise Unsupported("non-finite float")
        r = repr(x)
        fr = Fraction(r)
        digits = len(r.replace("-", "").replace(".", "").split("e")[0].lstrip("0"))
        if digits >= 15:
            STATS["float_leaks"] += 1
        return fr
    raise TypeError(f"cannot convert {type(x)} to Fraction")


# --------------------------------------------------------------------------
# explorer hook (set by symx.explore)
# --------------------------------------------------------------------------


class _NoExplorer:
    def decide(self, cond):  # pragma: no cover
        raise Unsupported("symbolic branch outside an exploration")

    def assume_range(self, atom):
        pass


EXPLORER = _NoExplorer()


def set_explorer(e):
    global EXPLORER
    EXPLORER = e


# --------------------------------------------------------------------------
# symbolic booleans
# --------------------------------------------------------------------------


class Cond:
    """A constraint in normal form:  poly  op  0  (op in ==, !=, <, <=) or a
    boolean combination (and/or/not) of such."""

    __slots__ = ("op", "args")

    def __init__(self, op, *args):
        self.op = op
        self.args = args

    def negate(self) -> "Cond":
        op = self.op
        if op == "==":
            return Cond("!=", self.args[0])
        if op == "!=":
            return Cond("==", self.args[0])
        if op == "<":  # p < 0  ->  -p <= 0
            return Cond("<=", pneg(self.args[0]))
        if op == "<=":
            return Cond("<", pneg(self.args[0]))
        if op == "and":
            return Cond("or", *[a.negate() for a in self.args])
        if op == "or":
            return Cond("and", *[a.negate() for a in self.args])
        if op == "true":
            return Cond("false")
        if op == "false":
            return Cond("true")
        raise AssertionError(op)

    def key(self):
        if self.op in ("==", "!=", "<", "<="):
            return (self.op, pkey(self.args[0]))
        return (self.op, tuple(a.key() for a in self.args))

    def atoms(self) -> set:
        if self.op in ("==", "!=", "<", "<="):
            return p_atoms(self.args[0])
        s = set()
        for a in self.args:
            s |= a.atoms()
        return s

    def const_value(self):
        """True/False if decidable syntactically, else None."""
        op = self.op
        if op == "true":
            return True
        if op == "false":
            return False
        if op in ("==", "!=", "<", "<="):
            p = self.args[0]
            if p_is_const(p):
                c = p_const_val(p)
                return {"==": c == 0, "!=": c != 0, "<": c < 0, "<=": c <= 0}[op]
            if _is_alg_const(p):
                # algebraic constant: decide numerically when clearly non-zero
                v = p_eval_dec(p)
                if v is not None and abs(v) > _DEC_EPS:
                    return {"==": False, "!=": True, "<": v < 0, "<=": v <= 0}[op]
            return None
        vals = [a.const_value() for a in self.args]
        if op == "and":
            if any(v is False for v in vals):
                return False
            if all(v is True for v in vals):
                return True
            return None
        if op == "or":
            if any(v is True for v in vals):
                return True
            if all(v is False for v in vals):
                return False
            return None
        return None

    def eval(self, val: dict) -> bool:
        op = self.op
        if op == "true":
            return True
        if op == "false":
            return False
        if op in ("==", "!=", "<", "<="):
            v = p_eval(self.args[0], val)
            return {"==": abs(v) < 1e-9, "!=": abs(v) >= 1e-9, "<": v < 0, "<=": v <= 0}[op]
        if op == "and":
            return all(a.eval(val) for a in self.args)
        return any(a.eval(val) for a in self.args)

    def __repr__(self):
        if self.op in ("==", "!=", "<", "<="):
            return f"({p_str(self.args[0])} {self.op} 0)"
        if self.op in ("true", "false"):
            return self.op
        return "(" + f" {self.op} ".join(map(repr, self.args)) + ")"


class SymBool:
    __slots__ = ("cond",)

    def __init__(self, cond: Cond):
        self.cond = cond

    def __bool__(self):
        v = self.cond.const_value()
        if v is not None:
            return v
        return EXPLORER.decide(self.cond)

    def __and__(self, o):
        return SymBool(Cond("and", self.cond, _as_cond(o)))

    __rand__ = __and__

    def __or__(self, o):
        return SymBool(Cond("or", self.cond, _as_cond(o)))

    __ror__ = __or__

    def __invert__(self):
        return SymBool(self.cond.negate())

    def __repr__(self):
        return f"SymBool{self.cond!r}"


def _as_cond(o) -> Cond:
    if isinstance(o, SymBool):
        return o.cond
    if isinstance(o, Cond):
        return o
    return Cond("true") if o else Cond("false")


def mkbool(cond: Cond):
    v = cond.const_value()
    if v is not None:
        return v
    return SymBool(cond)


# --------------------------------------------------------------------------
# scalars
# --------------------------------------------------------------------------


def _coerce(x):
    """python number / Sx / Ang -> Sx or None."""
    if type(x) is Sx:
        return x
    if isinstance(x, bool):
        return Sx(pconst(int(x)))
    if isinstance(x, numbers.Integral):
        return Sx(pconst(int(x)))
    if isinstance(x, Fraction):
        return Sx(pconst(x))
    if isinstance(x, numbers.Real):
        return Sx(pconst(to_fraction(x)))
    if isinstance(x, numbers.Complex):
        x = complex(x)
        return Sx(pconst(to_fraction(x.real)), pconst(to_fraction(x.imag)))
    if isinstance(x, Ang):
        return x.as_real()
    return None


RAW = [False]   # when on, every ring operation also records an un-normalised expression tree


def _rawof(x):
    r = x.raw
    return r if r is not None else ("leaf", x)


class Sx:
    """Symbolic complex scalar."""

    __slots__ = ("re", "im", "raw")

    def __init__(self, re: dict, im: dict | None = None):
        self.re = re
        self.im = im if im is not None else {}
        self.raw = None

    # -- predicates -------------------------------------------------------
    def is_real(self) -> bool:
        return not self.im

    def is_const(self) -> bool:
        return p_is_const(self.re) and p_is_const(self.im)

    def is_zero(self) -> bool:
        return not self.re and not self.im

    def const(self):
        """exact constant value (Fraction or (Fraction, Fraction))."""
        if not self.is_const():
            raise Unsupported("constant value of a symbolic scalar requested")
        if self.im:
            return (p_const_val(self.re), p_const_val(self.im))
        return p_const_val(self.re)

    def atoms(self) -> set:
        return p_atoms(self.re) | p_atoms(self.im)

    # -- arithmetic -------------------------------------------------------
    def __add__(self, o):
        if type(o) is not Sx:
            if type(o) is int and o == 0:
                return self
            o = _coerce(o)
            if o is None:
                return NotImplemented
        r = Sx(padd(self.re, o.re), padd(self.im, o.im) if (self.im or o.im) else {})
        if RAW[0]:
            r.raw = ("+", _rawof(self), _rawof(o))
        return r

    __radd__ = __add__

    def __neg__(self):
        r = Sx(pneg(self.re), pneg(self.im))
        if RAW[0]:
            r.raw = ("neg", _rawof(self))
        return r

    def __pos__(self):
        return self

    def __sub__(self, o):
        if type(o) is not Sx:
            o = _coerce(o)
            if o is None:
                return NotImplemented
        r = Sx(padd(self.re, pneg(o.re)), padd(self.im, pneg(o.im)) if (self.im or o.im) else {})
        if RAW[0]:
            r.raw = ("+", _rawof(self), ("neg", _rawof(o)))
        return r

    def __rsub__(self, o):
        o = _coerce(o)
        if o is None:
            return NotImplemented
        return o - self

    def __mul__(self, o):
        if type(o) is not Sx:
            if type(o) is int:
                if o == 0:
                    return ZERO
                if o == 1:
                    return self
            o = _coerce(o)
            if o is None:
                return NotImplemented
        a, b, c, d = self.re, self.im, o.re, o.im
        if not b and not d:
            r = Sx(pmul(a, c))
        else:
            re = pmul(a, c)
            if b and d:
                re = padd(re, pneg(pmul(b, d)))
            im = {}
            if d:
                im = pmul(a, d)
            if b:
                im = padd(im, pmul(b, c))
            r = Sx(re, im)
        if RAW[0]:
            r.raw = ("*", _rawof(self), _rawof(o))
        return r

    __rmul__ = __mul__

    def conjugate(self):
        if not self.im:
            return self
        r = Sx(self.re, pneg(self.im))
        if RAW[0]:
            r.raw = ("conj", _rawof(self))
        return r

    conj = conjugate

    @property
    def real(self):
        if not self.im:
            return self
        r = Sx(self.re)
        if RAW[0]:
            r.raw = ("re", _rawof(self))
        return r

    @property
    def imag(self):
        r = Sx(self.im)
        if RAW[0]:
            r.raw = ("im", _rawof(self))
        return r

    def abs2(self):
        """|z|^2 as a real scalar."""
        r = pmul(self.re, self.re)
        if self.im:
            r = padd(r, pmul(self.im, self.im))
        out = Sx(r)
        if RAW[0]:
            out.raw = ("abs2", _rawof(self))
        return out

    def __truediv__(self, o):
        if type(o) is not Sx:
            o = _coerce(o)
            if o is None:
                return NotImplemented
        return self * o.reciprocal()

    def __rtruediv__(self, o):
        o = _coerce(o)
        if o is None:
            return NotImplemented
        return o * self.reciprocal()

    def reciprocal(self):
        if self.im:
            d = self.abs2()
            return self.conjugate() * d.reciprocal()
        r = Sx(pinv(self.re))
        if RAW[0]:
            r.raw = ("rinv", _rawof(self))
        return r

    def __pow__(self, e):
        return spow(self, e)

    def __rpow__(self, b):
        return spow(b, self)

    def __floordiv__(self, o):
        return Sx(pconst(self._rat() // _coerce(o)._rat()))

    def __mod__(self, o):
        return Sx(pconst(self._rat() % _coerce(o)._rat()))

    def _rat(self) -> Fraction:
        if self.im or not p_is_const(self.re):
            raise Unsupported("rational value of a symbolic scalar requested")
        return p_const_val(self.re)

    # -- comparisons ------------------------------------------------------
    def _cmp(self, o, op):
        if type(o) is float and o in (math.inf, -math.inf):
            # every real value lies strictly between -inf and +inf
            if self.im:
                raise TypeError("ordering of complex symbolic scalars with infinity")
            pos = o > 0
            return {"==": False, "!=": True, "<": pos, "<=": pos}[op]
        if type(o) is not Sx:
            o = _coerce(o)
            if o is None:
                return NotImplemented
        if self.im or o.im:
            if op in ("==", "!="):
                d = self - o
                c = Cond("and", Cond("==", d.re), Cond("==", d.im))
                return mkbool(c if op == "==" else c.negate())
            # numpy orders complex numbers lexicographically (real, then imag)
            d = self - o
            strict = Cond("or", Cond("<", d.re), Cond("and", Cond("==", d.re), Cond("<", d.im)))
            if op == "<":
                return mkbool(strict)
            return mkbool(Cond("or", strict, Cond("and", Cond("==", d.re), Cond("==", d.im))))
        d = padd(self.re, pneg(o.re))
        return mkbool(Cond(op, d))

    def __eq__(self, o):
        return self._cmp(o, "==")

    def __ne__(self, o):
        return self._cmp(o, "!=")

    def __lt__(self, o):
        return self._cmp(o, "<")

    def __le__(self, o):
        return self._cmp(o, "<=")

    def __gt__(self, o):
        if type(o) is float and o in (math.inf, -math.inf):
            return o < 0
        o = _coerce(o)
        if o is None:
            return NotImplemented
        return o._cmp(self, "<")

    def __ge__(self, o):
        if type(o) is float and o in (math.inf, -math.inf):
            return o < 0
        o = _coerce(o)
        if o is None:
            return NotImplemented
        return o._cmp(self, "<=")

    __hash__ = object.__hash__

    # -- conversions (constants only) ---------------------------------------
    def __float__(self):
        if self.im:
            raise TypeError("complex to float")
        return float(approx(self)[0])

    def __complex__(self):
        r, i = approx(self)
        return complex(r, i)

    def __int__(self):
        return int(self.__float__())

    def __index__(self):
        v = self._rat()
        if v.denominator != 1:
            raise TypeError("non-integral scalar used as index")
        return int(v)

    def __round__(self, n=None):
        return round(self.__float__(), n)

    def __format__(self, spec):
        if self.is_const():
            return format(complex(self) if self.im else float(self), spec)
        return format(repr(self), spec if not spec or spec[-1] in "s" else "")

    def __str__(self):
        if self.is_const():
            return str(complex(self) if self.im else float(self))
        return repr(self)

    def __abs__(self):
        return sabs(self)

    def item(self):
        return self

    def __bool__(self):
        return bool(self != 0)

    # numpy ufunc dispatch on object arrays calls these methods
    def sqrt(self):
        return spow(self, Fraction(1, 2))

    def cos(self):
        return ang_cos(self)

    def sin(self):
        return ang_sin(self)

    def exp(self):
        return sexp(self)

    def arccos(self):
        return sarccos(self)

    def __repr__(self):
        if self.im:
            return f"Sx({p_str(self.re)} + i*({p_str(self.im)}))"
        return f"Sx({p_str(self.re)})"


ZERO = Sx({})
ONE = Sx(pconst(1))
I = Sx({}, pconst(1))


def const(x) -> Sx:
    r = _coerce(x)
    if r is None:
        raise TypeError(f"not a number: {x!r}")
    return r


def var(name: str, lo=None, hi=None) -> Sx:
    """A free real variable (one atom per name)."""
    a = _VARS.get(name)
    if a is None:
        a = Atom("var", name)
        a.lo = None if lo is None else Fraction(lo)
        a.hi = None if hi is None else Fraction(hi)
        _VARS[name] = a
    return Sx(patom(a))


def fn(name: str, *args: Sx) -> Sx:
    """Uninterpreted real function application (axioms are the caller's)."""
    key = (name, tuple(pkey(a.re) for a in args))
    a = _FNS.get(key)
    if a is None:
        a = Atom("fn", f"{name}#{len(_FNS)}", data=(name, [x.re for x in args]))
        _FNS[key] = a
    return Sx(patom(a))


def _fn_arg(x: Sx, name: str):
    """if x is exactly one fn atom `name`, return its argument polynomial."""
    if x.im or len(x.re) != 1:
        return None
    (m, c), = x.re.items()
    if c != 1 or len(m) != 1 or m[0][1] != 1:
        return None
    a = ATOMS[m[0][0]]
    if a.kind == "fn" and a.data[0] == name:
        return a.data[1][0]
    return None


def pow10(e: Sx) -> Sx:
    """10**e, uninterpreted except for: 10**log10(z) == z, 10**e > 0,
    monotone around 1 (constraints emitted by the solver layer)."""
    inner = _fn_arg(e, "log10")
    if inner is not None:
        return Sx(inner)
    return fn("pow10", e)


def log10(z: Sx) -> Sx:
    inner = _fn_arg(z, "pow10")
    if inner is not None:
        return Sx(inner)
    pos = z > 0
    if not pos:
        raise ValueError("math domain error")
    return fn("log10", z)


# --------------------------------------------------------------------------
# roots
# --------------------------------------------------------------------------


def _content(p: dict) -> Fraction:
    """positive rational c such that p / c has coprime integer coefficients."""
    num = 0
    den = 1
    for c in p.values():
        num = math.gcd(num, abs(c.numerator))
        den = den * c.denominator // math.gcd(den, c.denominator)
    return Fraction(num, den)


def _prime_factors(n: int) -> dict:
    f = {}
    d = 2
    while d * d <= n:
        while n % d == 0:
            f[d] = f.get(d, 0) + 1
            n //= d
        d += 1 if d == 2 else 2
    if n > 1:
        f[n] = f.get(n, 0) + 1
    return f


def _sqrt_rational(c: Fraction) -> dict:
    """poly for sqrt(c), c > 0 rational: rational * product of prime roots."""
    n = c.numerator * c.denominator
    out = Fraction(1, c.denominator)
    poly = {_ONE: F1}
    if n > 10**14:
        # avoid factorising huge leaked floats: single opaque root
        return pscale(patom(_root_atom(pconst(n))), out)
    for pr, e in sorted(_prime_factors(n).items()):
        out *= pr ** (e // 2)
        if e % 2:
            poly = pmul(poly, patom(_root_atom(pconst(pr))))
    return pscale(poly, out)


def _root_atom(p: dict) -> Atom:
    k = pkey(p)
    a = _ROOTS.get(k)
    if a is None:
        a = Atom("root", f"sqrt[{p_str(p)}]", rdeg=2, rpoly=p)
        _ROOTS[k] = a
    return a


def _perfect_square(p: dict):
    """If p is syntactically (c*m)^2 for a monomial m of non-reducing atoms,
    return (c, m) else None."""
    if len(p) != 1:
        return None
    (m, c), = p.items()
    if c <= 0:
        return None
    if any(e % 2 for _, e in m):
        return None
    return c, tuple((a, e // 2) for a, e in m)


def psqrt(p: dict) -> dict:
    """sqrt of a real polynomial assumed >= 0 (caller checks)."""
    if not p:
        return {}
    if p_is_const(p):
        c = p_const_val(p)
        if c < 0:
            raise Unsupported("sqrt of a negative constant")
        return _sqrt_rational(c)
    c = _content(p)
    prim = pscale(p, 1 / c)
    return pmul(_sqrt_rational(c), patom(_root_atom(prim)))


def ssqrt(x: Sx, nonneg: bool = False) -> Sx:
    """sqrt of a real scalar; nonneg=True: the caller knows x >= 0 by
    construction (sum of squares) and no solver query is spent on it."""
    if x.im:
        raise Unsupported("sqrt of a complex scalar")
    p = x.re
    if p_is_const(p):
        c = p_const_val(p)
        if c < 0:
            return Sx({}, _sqrt_rational(-c))
        return Sx(psqrt(p))
    sq = _perfect_square(p)
    if sq is not None:
        # sqrt(c*m^2) = sqrt(c)*|m| ; decide the sign of m
        c, m = sq
        mp = {m: F1}
        if bool(mkbool(Cond("<=", pneg(mp)))):  # m >= 0
            return Sx(pmul(_sqrt_rational(c), mp))
        return Sx(pmul(_sqrt_rational(c), pneg(mp)))
    # radicand must be non-negative on this path
    if not nonneg:
        ok = mkbool(Cond("<=", pneg(p)))  # p >= 0
        if not ok:
            raise Unsupported("sqrt of a possibly negative symbolic value")
    return Sx(psqrt(p))


def spow(b, e):
    """b ** e with exact results for the exponents the library uses."""
    if isinstance(e, Sx):
        if not e.is_const() or e.im:
            if not e.im and not isinstance(b, (Sx, Ang)) and b == 10:
                return pow10(e)
            raise Unsupported("symbolic exponent")
        e = e._rat()
    if isinstance(e, (float, int, Fraction)) and not isinstance(e, bool):
        ef = to_fraction(e)
    else:
        raise Unsupported(f"exponent {e!r}")
    if not isinstance(b, Sx):
        # plain python base
        if isinstance(b, Ang):
            b = b.as_real()
        elif ef.denominator == 1 and isinstance(b, (int, Fraction)) and not isinstance(b, bool):
            if ef >= 0 or b != 0:
                return Fraction(b) ** int(ef) if ef < 0 or isinstance(b, Fraction) else b ** int(ef)
        if not isinstance(b, Sx):
            if ef.denominator == 1 and isinstance(b, (float, complex)):
                return b ** int(ef)
            b = const(b)
    if ef.denominator == 1:
        n = int(ef)
        if n < 0:
            return spow(b.reciprocal(), -n)
        r = ONE
        base = b
        while n:
            if n & 1:
                r = r * base
            base = base * base
            n >>= 1
        return r
    den = ef.denominator
    if den & (den - 1):
        raise Unsupported(f"exponent {ef}")
    r = b
    while den > 1:
        r = ssqrt(r)
        den //= 2
    return spow(r, ef.numerator)


def sabs(x: Sx) -> Sx:
    if x.im:
        return ssqrt(x.abs2(), nonneg=True)
    if p_is_const(x.re):
        return Sx(pconst(abs(p_const_val(x.re))))
    if bool(x >= 0):
        return x
    return -x


# --------------------------------------------------------------------------
# reciprocals
# --------------------------------------------------------------------------


def _is_alg_const(p: dict) -> bool:
    """only root atoms whose radicands are (recursively) algebraic consts."""
    for a in closure(p_atoms(p)):
        if ATOMS[a].kind != "root":
            return False
    return True


def pinv(p: dict) -> dict:
    if not p:
        raise ZeroDivisionError("division by zero")
    if p_is_const(p):
        return pconst(1 / p_const_val(p))
    if len(p) == 1:
        # c * monomial: invert atom by atom where possible
        (m, c), = p.items()
        out = pconst(1 / c)
        ok = True
        for a, e in m:
            at = ATOMS[a]
            if at.kind == "root" and p_is_const(at.rpoly):
                # 1/s = s/p
                out = pmul(out, pscale({((a, 1),): F1}, 1 / p_const_val(at.rpoly)))
            else:
                ok = False
                break
        if ok:
            return out
    if _is_alg_const(p):
        s = max(p_atoms(p))
        A: dict = {}
        B: dict = {}
        for m, c in p.items():
            if any(a == s for a, _ in m):
                B[tuple(x for x in m if x[0] != s)] = c
            else:
                A[m] = c
        # 1/(A + B s) = (A - B s) / (A^2 - B^2 p_s)
        den = padd(pmul(A, A), pneg(pmul(pmul(B, B), ATOMS[s].rpoly)))
        num = padd(A, pneg(pmul(B, patom(ATOMS[s]))))
        return pmul(num, pinv(den))
    # general symbolic denominator
    nz = mkbool(Cond("!=", p))
    if not nz:
        # only a solver-confirmed zero is a real ZeroDivisionError
        r = EXPLORER.confirm_path() if hasattr(EXPLORER, "confirm_path") else "sat"
        if r == "unsat":
            from .explore import PathInfeasible
            raise PathInfeasible()
        if r != "sat":
            raise Unsupported("division by a value the solver could not separate from zero")
        raise ZeroDivisionError("division by a symbolic zero")
    c = _content(p)
    # sign-normalise so that d and -d share one atom
    lead = p[min(p)]
    if lead < 0:
        c = -c
    prim = pscale(p, 1 / c)
    k = pkey(prim)
    a = _INVS.get(k)
    if a is None:
        a = Atom("inv", f"inv[{p_str(prim)}]", data=prim)
        _INVS[k] = a
    return pscale(patom(a), 1 / c)


def clear_inv(p: dict) -> dict:
    """Multiply by powers of denominators until no inv atom remains.  The
    result is zero iff p is zero (denominators are non-zero)."""
    while True:
        invs = [a for a in p_atoms(p) if ATOMS[a].kind == "inv"]
        if not invs:
            return p
        v = max(invs)
        d = ATOMS[v].data
        k = max(dict(m).get(v, 0) for m in p)
        out: dict = {}
        dpow = [{_ONE: F1}]
        for _ in range(k):
            dpow.append(pmul(dpow[-1], d))
        for m, c in p.items():
            e = dict(m).get(v, 0)
            rest = tuple(x for x in m if x[0] != v)
            out = padd(out, pmul({rest: c}, dpow[k - e]))
        p = out


def is_zero(x) -> bool:
    """Syntactic zero test after clearing denominators."""
    if not isinstance(x, Sx):
        x = const(x)
    return not clear_inv(x.re) and not clear_inv(x.im)


# --------------------------------------------------------------------------
# angles
# --------------------------------------------------------------------------

_ANG_ATOMS: dict = {}
_FLOAT_ANGLES: dict = {}


class AngAtom:
    """A basic angle with its cosine and sine as polynomials."""

    __slots__ = ("name", "cos", "sin", "value", "rng")

    def __init__(self, name, cos, sin, value=None, rng=None):
        self.name = name
        self.cos = cos
        self.sin = sin
        self.value = value  # concrete float for abstracted float angles
        self.rng = rng      # known range of the angle: "(-pi,pi]", "[0,pi)", None


def angle(name: str, divisor: int = 1):
    """A free symbolic angle alpha = divisor * beta with beta the basic
    angle, so that alpha / divisor stays representable."""
    aa = _ANG_ATOMS.get(name)
    if aa is None:
        c = Atom("cos", f"cos[{name}/{divisor}]" if divisor != 1 else f"cos[{name}]")
        c.lo, c.hi = Fraction(-1), Fraction(1)
        s = Atom("sin", f"sin[{name}/{divisor}]" if divisor != 1 else f"sin[{name}]", rdeg=2, data=c.id)
        s.rpoly = padd(pconst(1), pneg(pmul(patom(c), patom(c))))
        s.lo, s.hi = Fraction(-1), Fraction(1)
        aa = AngAtom(name, patom(c), patom(s))
        _ANG_ATOMS[name] = aa
    return Ang({aa: divisor}, F0)


def _float_angle(x: float):
    """Angle for a concrete float: exact if a multiple of pi/12, else an
    abstract angle atom keyed by the value."""
    q = x / math.pi
    for den in (1, 2, 3, 4, 6, 12):
        k = round(q * den)
        if abs(q * den - k) < 1e-12 * max(1, abs(k)):
            return Ang({}, Fraction(k, den))
    aa = _FLOAT_ANGLES.get(x)
    if aa is None and x != 0:
        # an integer multiple of an angle already abstracted (the library halves and
        # negates float angles before taking cos/sin): reuse that atom
        for other in _FLOAT_ANGLES.values():
            mlt = x / other.value
            k = round(mlt)
            if k != 0 and abs(k) <= 256 and abs(mlt - k) < 1e-9:
                return Ang({other: k}, F0)
    if aa is None:
        # basic atom is x/4 so that the halves and quarters the library takes
        # (theta / 2 in rotation gates) stay representable
        nm = f"ang[{x!r}/4]"
        a = angle(nm)
        aa = next(iter(a.terms))
        aa.value = x / 4
        _FLOAT_ANGLES[x] = aa
    return Ang({aa: 4}, F0)


class Ang:
    """A linear form  q*pi + sum k_i * atom_i  with integer k_i."""

    __slots__ = ("terms", "pi", "reduced")

    def __init__(self, terms: dict, pi: Fraction, reduced: bool = False):
        self.terms = {a: k for a, k in terms.items() if k}
        self.pi = Fraction(pi)
        self.reduced = reduced  # value known to lie in [0, 2*pi) (result of x % (2*pi))

    def in_0_2pi(self):
        """bool / SymBool: does the value lie in [0, 2*pi)?"""
        if self.reduced:
            return True
        if not self.terms:
            return 0 <= self.pi < 2
        if all(a.value is not None for a in self.terms):
            return 0 <= float(self) < 2 * math.pi
        if len(self.terms) == 1 and self.pi == 0:
            (a, k), = self.terms.items()
            if a.rng == "(-pi,pi]" and k == 1:
                # angle(z) >= 0  <=>  sin >= 0
                return mkbool(Cond("<=", pneg(a.sin)))
            if a.rng == "[0,pi/2]" and k in (1, 2, 3):
                return True
            if a.rng == "[0,pi]" and k == 1:
                return True
        raise Unsupported("range of a symbolic angle expression")

    def __add__(self, o):
        if isinstance(o, Ang):
            t = dict(self.terms)
            for a, k in o.terms.items():
                t[a] = t.get(a, 0) + k
            return Ang(t, self.pi + o.pi)
        if isinstance(o, (int, float, Fraction)) and not isinstance(o, bool):
            if o == 0:
                return self
            return self + _float_angle(float(o))
        if isinstance(o, Sx) and o.is_const() and not o.im:
            if o.is_zero():
                return self
            return self + _float_angle(float(o))
        return NotImplemented

    __radd__ = __add__

    def __neg__(self):
        return Ang({a: -k for a, k in self.terms.items()}, -self.pi)

    def __sub__(self, o):
        if isinstance(o, Ang):
            return self + (-o)
        if isinstance(o, (int, float, Fraction)) and not isinstance(o, bool):
            return self + (-o)
        return NotImplemented

    def __rsub__(self, o):
        return (-self) + o

    def __mul__(self, o):
        if isinstance(o, complex) or (isinstance(o, Sx) and o.im and not o.re):
            if isinstance(o, Sx):
                k = Sx(o.im)
                if not k.is_const():
                    return NotImplemented
                kk = k._rat()
            else:
                if o.real != 0:
                    return NotImplemented
                kk = to_fraction(o.imag)
            return IAng(self * kk)
        if isinstance(o, Sx):
            if o.is_const() and not o.im:
                o = o._rat()
            else:
                return NotImplemented
        if isinstance(o, (int, float, Fraction)) and not isinstance(o, bool):
            k = to_fraction(o)
            t = {}
            for a, c in self.terms.items():
                v = c * k
                if v.denominator != 1:
                    raise Unsupported(f"non-integral multiple {k} of angle {a.name}")
                t[a] = int(v)
            return Ang(t, self.pi * k)
        return NotImplemented

    __rmul__ = __mul__

    def __truediv__(self, o):
        if isinstance(o, Sx) and o.is_const() and not o.im:
            o = o._rat()
        if isinstance(o, (int, float, Fraction)) and not isinstance(o, bool):
            return self * (1 / to_fraction(o))
        return NotImplemented

    def __mod__(self, o):
        # only x % (2*pi) is meaningful symbolically: identity on cos/sin,
        # and the result is known to lie in [0, 2*pi)
        if isinstance(o, Ang) and not o.terms and o.pi == 2:
            if not self.terms:
                return Ang({}, self.pi % 2, True)
            return Ang(self.terms, self.pi, True)
        return NotImplemented

    def __rmod__(self, o):
        # number % (2*pi)
        if isinstance(o, Sx) and o.is_const() and not o.im:
            o = float(o)
        if isinstance(o, (int, float, Fraction)) and not isinstance(o, bool):
            return _float_angle(float(o)) % self
        return NotImplemented

    def is_const(self):
        return not self.terms

    def cos_sin(self):
        """(cos, sin) polynomials of the whole form."""
        c, s = _pi_cos_sin(self.pi)
        for a, k in self.terms.items():
            ck, sk = _mult_cos_sin(a, k)
            c, s = (
                padd(pmul(c, ck), pneg(pmul(s, sk))),
                padd(pmul(s, ck), pmul(c, sk)),
            )
        return c, s

    def as_real(self) -> Sx:
        """Numeric value as scalar: only for pure multiples of pi with a
        float meaning (used when code does arithmetic on np.pi)."""
        if self.terms:
            if all(a.value is not None for a in self.terms):
                v = sum(a.value * k for a, k in self.terms.items()) + float(self.pi) * math.pi
                return const(v)
            raise Unsupported("symbolic angle used as a number")
        if self.pi == 0:
            return ZERO
        return Sx(pscale(patom(_pi_atom()), self.pi))

    def __float__(self):
        if self.terms and not all(a.value is not None for a in self.terms):
            raise Unsupported("float of a symbolic angle")
        return sum(a.value * k for a, k in self.terms.items()) + float(self.pi) * math.pi

    def _cmpval(self, o, op):
        # comparisons are only needed for constants
        a = float(self)
        b = float(o)
        return {"<": a < b, "<=": a <= b, ">": a > b, ">=": a >= b}[op]

    def __lt__(self, o):
        return self._cmpval(o, "<")

    def __le__(self, o):
        return self._cmpval(o, "<=")

    def __gt__(self, o):
        return self._cmpval(o, ">")

    def __ge__(self, o):
        return self._cmpval(o, ">=")

    def __eq__(self, o):
        if isinstance(o, Ang):
            return self.terms == o.terms and self.pi == o.pi
        if isinstance(o, (int, float)):
            return not self.terms and float(self) == o
        return NotImplemented

    def __hash__(self):
        return hash((tuple(sorted((a.name, k) for a, k in self.terms.items())), self.pi))

    def cos(self):
        return ang_cos(self)

    def sin(self):
        return ang_sin(self)

    def __round__(self, n=None):
        if self.terms and not all(a.value is not None for a in self.terms):
            return self
        return round(float(self), n)

    def __format__(self, spec):
        return repr(self)

    def __repr__(self):
        parts = [f"{k}*{a.name}" for a, k in self.terms.items()]
        if self.pi or not parts:
            parts.append(f"{self.pi}*pi")
        return "Ang(" + " + ".join(parts) + ")"


class IAng:
    """i * angle, the argument of exp."""

    __slots__ = ("ang",)

    def __init__(self, ang):
        self.ang = ang

    def __neg__(self):
        return IAng(-self.ang)

    def __mul__(self, o):
        if isinstance(o, (int, float, Fraction)) and not isinstance(o, bool):
            return IAng(self.ang * o)
        return NotImplemented

    __rmul__ = __mul__

    def __truediv__(self, o):
        return IAng(self.ang / o)

    def __add__(self, o):
        if isinstance(o, IAng):
            return IAng(self.ang + o.ang)
        return NotImplemented

    def exp(self):
        c, s = self.ang.cos_sin()
        return Sx(c, s)


_PI_ATOM = None


def _pi_atom():
    # pi as an opaque positive constant for the rare arithmetic uses
    for a in ATOMS:
        if a.kind == "var" and a.name == "pi":
            return a
    a = Atom("var", "pi")
    a.lo = Fraction(314159265, 100000000)
    a.hi = Fraction(314159266, 100000000)
    return a


_SQ = {}


def _pi_cos_sin(q: Fraction):
    q = q % 2
    table = {
        Fraction(0): (1, 0), Fraction(1, 2): (0, 1), Fraction(1): (-1, 0), Fraction(3, 2): (0, -1),
    }
    if q in table:
        c, s = table[q]
        return pconst(c), pconst(s)
    den = q.denominator
    if den in (3, 4, 6, 12):
        # reduce to first quadrant
        def base(fr):
            # cos, sin of fr*pi for 0 < fr < 1/2
            r2 = _sqrt_rational(Fraction(2))
            r3 = _sqrt_rational(Fraction(3))
            r6 = pmul(r2, r3)
            if fr == Fraction(1, 4):
                h = pscale(r2, Fraction(1, 2))
                return h, h
            if fr == Fraction(1, 6):
                return pscale(r3, Fraction(1, 2)), pconst(Fraction(1, 2))
            if fr == Fraction(1, 3):
                return pconst(Fraction(1, 2)), pscale(r3, Fraction(1, 2))
            if fr == Fraction(1, 12):
                return pscale(padd(r6, r2), Fraction(1, 4)), pscale(padd(r6, pneg(r2)), Fraction(1, 4))
            if fr == Fraction(5, 12):
                return pscale(padd(r6, pneg(r2)), Fraction(1, 4)), pscale(padd(r6, r2), Fraction(1, 4))
            raise AssertionError(fr)

        if q < Fraction(1, 2):
            return base(q)
        if q < 1:
            c, s = base(1 - q)
            return pneg(c), s
        if q < Fraction(3, 2):
            c, s = base(q - 1)
            return pneg(c), pneg(s)
        c, s = base(2 - q)
        return c, pneg(s)
    # other rational multiples: abstract basic angle pi/den
    a = angle(f"pi/{den}")
    aa = next(iter(a.terms))
    aa.value = math.pi / den
    return _mult_cos_sin(aa, q.numerator)


def _mult_cos_sin(a: AngAtom, k: int):
    key = (a.name, k)
    r = _SQ.get(key)
    if r is not None and r[2] is a:
        return r[0], r[1]
    if k == 0:
        c, s = pconst(1), {}
    elif k < 0:
        c, s = _mult_cos_sin(a, -k)
        s = pneg(s)
    elif k == 1:
        c, s = a.cos, a.sin
    else:
        h = k // 2
        c1, s1 = _mult_cos_sin(a, h)
        c2, s2 = _mult_cos_sin(a, k - h)
        c = padd(pmul(c1, c2), pneg(pmul(s1, s2)))
        s = padd(pmul(s1, c2), pmul(c1, s2))
    _SQ[key] = (c, s, a)
    return c, s


def _to_ang(x):
    if isinstance(x, Ang):
        return x
    if isinstance(x, (int, float, Fraction)) and not isinstance(x, bool):
        return _float_angle(float(x))
    if isinstance(x, Sx):
        if x.is_const() and not x.im:
            return _float_angle(float(x))
        # multiples of the pi atom
        raise Unsupported("trigonometric function of a symbolic non-angle scalar")
    raise Unsupported(f"angle from {type(x)}")


def ang_cos(x) -> Sx:
    return Sx(_to_ang(x).cos_sin()[0])


def ang_sin(x) -> Sx:
    return Sx(_to_ang(x).cos_sin()[1])


def sexp(x):
    if isinstance(x, IAng):
        return x.exp()
    if isinstance(x, complex):
        if x.real == 0:
            return IAng(_float_angle(x.imag)).exp()
        raise Unsupported("exp of a complex number with real part")
    if isinstance(x, Sx):
        if x.is_zero():
            return ONE
        if not x.re and Sx(x.im).is_const():
            return IAng(_float_angle(float(Sx(x.im)))).exp()
        raise Unsupported("exp of a symbolic scalar")
    if isinstance(x, (int, float)):
        if x == 0:
            return ONE
        raise Unsupported("real exponential")
    raise Unsupported(f"exp of {type(x)}")


_ARC = [0]


def sarccos(x) -> Ang:
    """arccos of a real scalar in [-1, 1]: an angle in [0, pi] whose cosine
    is x and whose sine is sqrt(1 - x^2) >= 0."""
    x = const(x) if not isinstance(x, Sx) else x
    if x.im:
        raise Unsupported("arccos of complex")
    if x.is_const():
        v = x._rat()
        special = {Fraction(1): Fraction(0), Fraction(0): Fraction(1, 2), Fraction(-1): Fraction(1), Fraction(1, 2): Fraction(1, 3), Fraction(-1, 2): Fraction(2, 3)}
        if v in special:
            return Ang({}, special[v])
    rad = ONE - x * x
    if not x.is_const():
        inside = mkbool(Cond("<=", pneg(rad.re)))
        if not inside:
            # numpy returns nan (with a warning) and carries on: model the
            # result as an angle with arbitrary, unrelated cos/sin values
            _ARC[0] += 1
            c = var(f"nan#{_ARC[0]}c")
            sn = var(f"nan#{_ARC[0]}s")
            return Ang({AngAtom(f"nan#{_ARC[0]}", c.re, sn.re): 1}, F0)
    s = ssqrt(rad)
    _ARC[0] += 1
    aa = AngAtom(f"arccos#{_ARC[0]}", x.re, s.re, rng="[0,pi]")
    return Ang({aa: 1}, F0)


def sarctan(q):
    """arctan of a real scalar: an angle in (-pi/2, pi/2) with
    cos = 1/sqrt(1+q^2) > 0, sin = q/sqrt(1+q^2)."""
    q = const(q) if not isinstance(q, Sx) else q
    if q.im:
        raise Unsupported("arctan of complex")
    if q.is_const():
        v = q._rat()
        if v == 0:
            return Ang({}, F0)
        if v == 1:
            return Ang({}, Fraction(1, 4))
        if v == -1:
            return Ang({}, Fraction(-1, 4))
    h = ssqrt(ONE + q * q, nonneg=True)
    hi = h.reciprocal()
    _ARC[0] += 1
    nonneg = mkbool(Cond("<=", pneg(q.re)))
    aa = AngAtom(f"arctan#{_ARC[0]}", hi.re, (q * hi).re, rng="[0,pi/2]" if (nonneg is True or (nonneg is not False and bool(nonneg))) else None)
    return Ang({aa: 1}, F0)


def sarctan2half(y, x):
    """The angle t/2 for t = 2*arctan(y/x), x, y >= 0 not both zero:
    cos = x/h, sin = y/h, h = sqrt(x^2+y^2)."""
    x = const(x) if not isinstance(x, Sx) else x
    y = const(y) if not isinstance(y, Sx) else y
    h = ssqrt(x * x + y * y)
    hi = h.reciprocal()
    _ARC[0] += 1
    aa = AngAtom(f"arctan#{_ARC[0]}", (x * hi).re, (y * hi).re)
    return Ang({aa: 1}, F0)


# --------------------------------------------------------------------------
# numeric approximation of constants / under a valuation
# --------------------------------------------------------------------------


def atom_value(a: Atom, val: dict) -> float:
    """Float value of a defined atom given values of the atoms below it."""
    if a.kind == "root":
        return math.sqrt(max(0.0, p_eval(a.rpoly, val)))
    if a.kind == "inv":
        return 1.0 / p_eval(a.data, val)
    raise KeyError(a.name)


def complete_valuation(val: dict, atom_ids) -> dict:
    """Fill in defined atoms (roots, invs, sin from cos and a sign) from a
    valuation of the free ones; missing free atoms raise KeyError."""
    out = dict(val)
    for i in closure(atom_ids):
        if i in out:
            continue
        a = ATOMS[i]
        if a.kind in ("root", "inv"):
            out[i] = atom_value(a, out)
        elif a.kind == "var" and a.name == "pi":
            out[i] = math.pi
        else:
            raise KeyError(a.name)
    return out


def approx(x: Sx):
    """(re, im) floats of an algebraic constant."""
    ids = x.atoms()
    val = complete_valuation({}, ids)
    return p_eval(x.re, val), p_eval(x.im, val)
