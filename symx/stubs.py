"""
Nondeterministic stubs for the random sources the library consumes, turning
randomness into symbolic/enumerated decisions with exact path measures
(probabilistic symbolic execution).

A RandDraw stands for one uniform draw u in [0,1).  Comparing it with a
threshold t decides one side; the draw keeps the interval [lo, hi) it has been
confined to, whose length is the measure of the decisions taken on it (valid
when successive thresholds on the same draw are non-decreasing, which the
harness asserts as an obligation).
"""
from __future__ import annotations

from fractions import Fraction

from . import alg
from .alg import Sx


class Enumerator:
    """Local depth-first enumeration of every decision vector of a piece of
    code that consumes draws; used inside one harness path."""

    def __init__(self, limit=20000):
        self.prefix = []
        self.pos = 0
        self.work = [[]]
        self.limit = limit
        self.runs = 0

    def decide(self, n=2):
        if self.pos < len(self.prefix):
            d = self.prefix[self.pos]
        else:
            d = 0
            for k in range(n - 1, 0, -1):
                self.work.append(self.prefix + [k])
            self.prefix.append(0)
        self.pos += 1
        return d

    def run_all(self, fn):
        """yield the result of fn() for every decision vector"""
        out = []
        while self.work:
            self.prefix = self.work.pop()
            self.pos = 0
            self.runs += 1
            if self.runs > self.limit:
                raise alg.Unsupported("enumeration limit")
            out.append(fn())
        return out


class RandDraw:
    """one uniform draw in [0, 1)"""

    def __init__(self, world, key):
        self.world = world
        self.key = key
        self.lo = 0
        self.hi = 1
        self.thresholds = []

    # decision helpers ---------------------------------------------------
    def _below(self, t, strict_label):
        """decide u < t (True) or u >= t (False)"""
        w = self.world
        memo = w.decisions.get((self.key, len(self.thresholds)))
        if memo is None:
            memo = w.decide(2) == 0
            w.decisions[(self.key, len(self.thresholds))] = memo
        self.thresholds.append(t)
        if memo:
            self.hi = t
        else:
            self.lo = t
        w.touched[self.key] = self
        return memo

    def measure(self):
        return self.hi - self.lo

    def __lt__(self, t):
        return self._below(t, "<")

    def __le__(self, t):
        return self._below(t, "<=")

    def __gt__(self, t):
        return not self._below(t, ">")

    def __ge__(self, t):
        return not self._below(t, ">=")


class World:
    """Holds every stubbed random source for one execution.

    decide(n): where decisions come from (an Enumerator or the explorer).
    Draws inside an epoch opened by seed(s) / default_rng(s) with s not None
    are keyed by (s, k) and therefore identical in two executions that share
    the `decisions` dictionary; draws outside any epoch are keyed by a fresh
    per-execution counter.
    """

    def __init__(self, decide, decisions=None, run_id=0, ctx=None):
        self.ctx = ctx
        self.decide = decide
        self.decisions = decisions if decisions is not None else {}
        self.run_id = run_id
        self.touched = {}
        self.py_epoch = None
        self.py_count = 0
        self.fresh = 0
        self.choice_calls = []
        self.weight_choice = 1
        self.draws = []

    # --- python `random` module ----------------------------------------
    def seed(self, s=None):
        # documented contract of random.seed (Python >= 3.11)
        if s is not None and not isinstance(s, (int, float, str, bytes, bytearray)):
            raise TypeError("The only supported seed types are: None, int, float, str, bytes, and bytearray.")
        self.py_epoch = s
        self.py_count = 0

    def random(self):
        if self.py_epoch is None:
            self.fresh += 1
            key = ("fresh", self.run_id, self.fresh)
        else:
            self.py_count += 1
            key = ("py", self.py_epoch, self.py_count)
        return RandDraw(self, key)

    # --- numpy Generator --------------------------------------------------
    def default_rng(self, seed=None):
        return RngStub(self, seed)

    def path_measure(self):
        m = self.weight_choice
        for d in self.touched.values():
            m = m * d.measure()
        return m

    def monotone_obligations(self):
        """pairs (earlier, later) of thresholds applied to the same draw"""
        out = []
        for d in self.touched.values():
            for a, b in zip(d.thresholds, d.thresholds[1:]):
                out.append((a, b))
        return out


CHOICE_ATOL = Fraction(3, 2) * Fraction(1, 10**8)  # numpy: sqrt(finfo(float64).eps) = 1.4901e-8, rounded up


class RngStub:
    def __init__(self, world, seed):
        self.world = world
        self.seed = seed
        self.count = 0

    def choice(self, vals, p=None, size=None):
        import numpy as np
        w = self.world
        vals = list(vals)
        probs = list(p) if p is not None else [alg.const(1) / len(vals)] * len(vals)
        w.choice_calls.append((vals, probs, size))
        if p is not None:
            # documented contract of numpy.random.Generator.choice: the weights must sum to one
            # within atol = sqrt(eps) ("probabilities do not sum to 1"); the library relies on
            # this exception (Sampler.sample_N_inputs renormalises in its except branch)
            tot = 0
            for q in probs:
                tot = tot + q
            if tot - 1 > CHOICE_ATOL or 1 - tot > CHOICE_ATOL:
                raise ValueError("probabilities do not sum to 1")
        n = 1 if size is None else int(size)
        out = np.empty(n, dtype=object)
        for k in range(n):
            if self.seed is None:
                w.fresh += 1
                key = ("freshchoice", w.run_id, w.fresh)
            else:
                self.count += 1
                key = ("np", self.seed, self.count)
            idx = w.decisions.get(key)
            if idx is None:
                idx = w.decide(len(vals))
                w.decisions[key] = idx
            w.weight_choice = w.weight_choice * probs[idx]
            out[k] = vals[idx]
        return out[0] if size is None else out

    def _name(self, kind):
        w = self.world
        if self.seed is None:
            w.fresh += 1
            return f"{kind}_fresh{w.run_id}_{w.fresh}"
        self.count += 1
        return f"{kind}_seed[{self.seed}]_{self.count}"

    def random(self):
        """uniform on [0,1) as an arithmetic value (solver variable / float)"""
        w = self.world
        if w.ctx is None:
            return w.random()
        u = w.ctx.real(self._name("u"), 0, 1)
        w.ctx.assume(u < 1)
        w.draws.append(u)
        return u

    def normal(self, loc=0.0, scale=1.0, size=None):
        w = self.world
        w.normal_draws = getattr(w, "normal_draws", 0) + 1
        if w.normal_draws > getattr(w, "max_normal_draws", 6):
            raise alg.OutOfBound("more Gaussian resampling iterations than the unrolling bound")
        if w.ctx is None:
            return alg.var(self._name("normal"))
        v = w.ctx.real(self._name("g"), -3, 3)
        w.draws.append(v)
        return v

    def integers(self, low, high=None):
        # a derived sub-seed: an int that is a deterministic, injective-in-
        # practice function of (seed, k); unseeded generators give a value
        # that is new in every execution
        import zlib
        w = self.world
        if self.seed is None:
            w.fresh += 1
            ident = ("freshint", w.run_id, w.fresh)
        else:
            self.count += 1
            ident = ("sub", int(self.seed), self.count)
        top = (int(low) if high is None else int(high)) - 1
        return 1 + zlib.crc32(repr(ident).encode()) % max(1, top - 1)

    def permutation(self, x):
        raise alg.Unsupported("rng.permutation")


_SAVED = []


def install(world, lw=None, symbolic=True):
    """symbolic: hook the shim modules; concrete: patch the plain library's
    module globals and numpy.random.default_rng for the duration."""
    if symbolic:
        from .shims import nprandom_, random_
        random_.HOOK[0] = world
        nprandom_.HOOK[0] = world
        return
    import importlib
    import numpy.random as npr
    for modname, names in (
        ("lightworks.emulator.components.detector", ("random", "seed")),
        ("lightworks.emulator.simulation.sampler", ("random",)),
        ("lightworks.emulator.simulation.quick_sampler", ("random",)),
    ):
        m = importlib.import_module(modname)
        for nm in names:
            if hasattr(m, nm):
                _SAVED.append((m, nm, getattr(m, nm)))
                setattr(m, nm, getattr(world, nm))
    _SAVED.append((npr, "default_rng", npr.default_rng))
    npr.default_rng = world.default_rng


def uninstall(symbolic=True):
    if symbolic:
        from .shims import nprandom_, random_
        random_.HOOK[0] = None
        nprandom_.HOOK[0] = None
        return
    while _SAVED:
        m, nm, v = _SAVED.pop()
        setattr(m, nm, v)
