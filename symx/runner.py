"""
Check driver: runs the symbolic harnesses of a property in a fork pool,
replays every counterexample against the plain library, matches known
findings, writes the evidence file and decides the exit status.

exit 0  no reproduced violation outside known_findings.json
exit 1  reproduced violation (VIOLATION line printed)
exit 2  harness error (vacuity guard, engine crash, too many inconclusive)
"""
from __future__ import annotations

import fnmatch
import hashlib
import importlib
import json
import multiprocessing as mp
import os
import subprocess
import sys
import time
import traceback
import zlib

VERIF = os.path.dirname(os.path.dirname(os.path.abspath(__file__)))
PY = os.path.join(VERIF, ".venv", "bin", "python")


def load_known():
    p = os.path.join(VERIF, "known_findings.json")
    if not os.path.exists(p):
        return []
    with open(p) as f:
        return json.load(f)["findings"]


# ---------------------------------------------------------------------------
# worker side
# ---------------------------------------------------------------------------

_G = {}


def _init_worker():
    pass


def _run_job(job):
    """job = (module name, harness name, case index)"""
    modname, hname, ci, tier = job
    from symx import alg
    from symx.explore import Explorer
    from symx.harness import SymCtx
    mod = importlib.import_module(modname)
    lw = _G["lw"]
    t0 = time.time()
    for name, fn, cases, *opts in mod.harnesses(tier):
        if name == hname:
            case = cases[ci]
            kw = opts[0] if opts else {}
            break
    else:
        raise KeyError(hname)
    kw = dict(kw)
    raw = kw.pop("raw", False)
    alg.RAW[0] = bool(raw)
    if tier == "thorough":
        kw.setdefault("cross", 3)
    ex = Explorer(**kw)
    try:
        ex.run(lambda ctx: fn(ctx, **case), lambda e: SymCtx(e, lw))
    except Exception as e:  # engine crash
        ex.errors.append({"error": f"engine: {type(e).__name__}: {e}", "tb": traceback.format_exc(limit=-8)})
        ex.stats["paths_error"] += 1
    return {
        "harness": hname, "case_index": ci, "case": _jsonable(case), "stats": ex.stats,
        "violations": ex.violations, "inconclusive": ex.inconclusive[:5],
        "unsupported": ex.unsupported[:5], "errors": ex.errors[:5], "samples": ex.samples[:2],
        "wall_s": time.time() - t0, "float_leaks": alg.STATS["float_leaks"],
    }


def _jsonable(x):
    try:
        json.dumps(x)
        return x
    except TypeError:
        if isinstance(x, dict):
            return {str(k): _jsonable(v) for k, v in x.items()}
        if isinstance(x, (list, tuple)):
            return [_jsonable(v) for v in x]
        return repr(x)


# ---------------------------------------------------------------------------
# replay (concrete, plain library) -- runs in its own process
# ---------------------------------------------------------------------------


def replay_main(path):
    with open(path) as f:
        rp = json.load(f)
    if rp.get("engine") == "crosshair":
        from symx import xh
        return xh.replay_main(rp)
    sys.path.insert(0, VERIF)
    from symx import loader
    loader.install_plain(rp["repo"])
    import lightworks as lw
    from symx.harness import ConcCtx
    mod = importlib.import_module(rp["module"])
    for name, fn, cases, *_ in mod.harnesses(rp["tier"]):
        if name == rp["harness"]:
            case = cases[rp["case_index"]]
            break
    else:
        print("replay: harness not found")
        return 2
    ctx = ConcCtx(lw, values=rp["values"], choices=rp["choices"], tol=rp.get("tol", getattr(mod, "REPLAY_TOL", 1e-6)))
    from symx.harness import ReplayEnd
    try:
        fn(ctx, **case)
    except ReplayEnd:
        print("replay: end of the recorded path")
    except Exception as e:
        print(f"replay: exception {type(e).__name__}: {e}")
        traceback.print_exc()
        if not ctx.failed:
            print("REPLAY-RESULT not-reproduced (exception in replay)")
            return 3
        # a check had already failed before the harness tripped over the broken state
    print("values used:", json.dumps(ctx.used_values))
    if ctx.failed:
        for fl in ctx.failed[:5]:
            print("FAILED CHECK:", json.dumps(_jsonable(fl)))
        labels = {f["label"] for f in ctx.failed}
        print("REPLAY-RESULT reproduced labels=" + ",".join(sorted(labels)))
        return 1
    print(f"REPLAY-RESULT not-reproduced ({ctx.n_checks} checks passed)")
    return 0


def concrete_sweep_main(modname, tier, repo, seed, runs):
    """Oracle/translator validation: every harness case on random concrete
    values against the plain library. Prints a JSON summary."""
    sys.path.insert(0, VERIF)
    from symx import loader
    loader.install_plain(repo)
    import lightworks as lw
    from symx.harness import ConcCtx
    from symx import alg
    mod = importlib.import_module(modname)
    out = {"runs": 0, "agree": 0, "failed_labels": {}, "skipped": 0, "errors": []}
    t_end = time.time() + 120
    for name, fn, cases, *_ in mod.harnesses(tier):
        for ci, case in enumerate(cases):
            for k in range(runs):
                if time.time() > t_end:
                    break
                ctx = ConcCtx(lw, seed=zlib.crc32(repr((seed, name, ci, k)).encode()), tol=getattr(mod, "REPLAY_TOL", 1e-6))
                try:
                    fn(ctx, **case)
                except alg.Unsupported:
                    out["skipped"] += 1
                    continue
                except Exception as e:
                    if len(out["errors"]) < 5:
                        out["errors"].append(f"{name}[{ci}]: {type(e).__name__}: {e}")
                    continue
                out["runs"] += 1
                if ctx.failed:
                    for fl in ctx.failed:
                        key = f"{name}:{fl['label']}"
                        out["failed_labels"][key] = out["failed_labels"].get(key, 0) + 1
                else:
                    out["agree"] += 1
    print("SWEEP-JSON " + json.dumps(out))
    return 0


# ---------------------------------------------------------------------------
# main driver
# ---------------------------------------------------------------------------


def ensure_env():
    if not os.path.exists(PY):
        subprocess.run([os.path.join(VERIF, "bootstrap.sh")], check=True)
    if os.path.realpath(sys.executable) != os.path.realpath(PY) and os.environ.get("SYMX_REEXEC") != "1":
        env = dict(os.environ, SYMX_REEXEC="1")
        os.execve(PY, [PY] + sys.argv, env)


def match_known(known, prop, key):
    for k in known:
        if k["property"] == prop and k.get("status") == "known" and fnmatch.fnmatchcase(key, k["key"]):
            return k
    return None


def run_check(prop, tier, repo, jobs, seed):
    t0 = time.time()
    modname = f"checks.{prop.lower()}"
    sys.path.insert(0, VERIF)
    mod = importlib.import_module(modname)
    known = load_known()
    evidence = {
        "property_id": prop, "tier": tier, "seed": seed, "level": getattr(mod, "LEVEL", "model_checking"),
        "coverage": {}, "assumptions": list(getattr(mod, "ASSUMPTIONS", [])), "wall_s": 0.0, "violations": 0,
    }
    status = 0
    lines = []
    harness_errors = []
    results = []
    sweep = None
    sweep_proc = None
    hs = mod.harnesses(tier) if hasattr(mod, "harnesses") else []
    repo_files = {}
    if hs:
        # oracle validation on the plain library, in parallel
        sweep_proc = subprocess.Popen(
            [PY, os.path.join(VERIF, "run_check.py"), "--sweep", modname, "--tier", tier, "--repo", repo, "--seed", str(seed)],
            stdout=subprocess.PIPE, stderr=subprocess.STDOUT, text=True, env=dict(os.environ, SYMX_REEXEC="1"),
        )
        from symx import loader
        loader.install(repo)
        import lightworks as lw
        _G["lw"] = lw
        repo_files = dict(loader.STATS["files"])
        joblist = []
        for name, fn, cases, *_ in hs:
            for ci in range(len(cases)):
                joblist.append((modname, name, ci, tier))
        # long jobs first is unknown; shuffle deterministically by seed for balance
        import random as _r
        _r.Random(seed).shuffle(joblist)
        ctxmp = mp.get_context("fork")
        with ctxmp.Pool(min(jobs, max(1, len(joblist)))) as pool:
            for r in pool.imap_unordered(_run_job, joblist, chunksize=1):
                results.append(r)
    # ---- crosshair conditions ------------------------------------------------
    xh_results = []
    if hasattr(mod, "xh_conditions"):
        from symx import xh
        _conds = mod.xh_conditions(tier)
        for _c in _conds:
            _c.setdefault("prop", prop)
        xh_results = xh.run_conditions(_conds, repo, jobs, tier)
    # ---- aggregate -----------------------------------------------------------
    agg = {}
    per_h = {}
    viol = []
    for r in results:
        for k, v in r["stats"].items():
            agg[k] = agg.get(k, 0) + v
        ph = per_h.setdefault(r["harness"], {"cases": 0, "paths": 0, "reached": 0, "obligations": 0, "refuted": 0, "inconclusive": 0, "unsupported": 0, "errors": 0, "wall_s": 0.0})
        ph["cases"] += 1
        ph["paths"] += r["stats"]["paths"]
        ph["reached"] += r["stats"]["reached"]
        ph["obligations"] += r["stats"]["obligations"]
        ph["refuted"] += r["stats"]["refuted"]
        ph["inconclusive"] += r["stats"]["inconclusive"]
        ph["unsupported"] += r["stats"]["paths_unsupported"]
        ph["errors"] += r["stats"]["paths_error"]
        ph["wall_s"] = round(ph["wall_s"] + r["wall_s"], 2)
        for v in r["violations"]:
            viol.append((r, v))
        for e in r["errors"]:
            harness_errors.append(f"{r['harness']}[{r['case_index']}]: {e.get('error')}\n{e.get('tb', '')}")
    for hname, ph in per_h.items():
        if ph["reached"] == 0:
            harness_errors.append(f"vacuity: harness {hname} never reached an assertion")
        if ph["paths"] and ph["unsupported"] == ph["paths"]:
            harness_errors.append(f"harness {hname}: every path aborted with Unsupported")
        if ph["obligations"] and ph["inconclusive"] * 4 > ph["obligations"]:
            harness_errors.append(f"harness {hname}: {ph['inconclusive']}/{ph['obligations']} obligations inconclusive")
    # ---- replay symx counterexamples ---------------------------------------
    replay_dir = os.path.join(VERIF, "replays", prop)
    os.makedirs(replay_dir, exist_ok=True)
    by_key = {}
    for r, v in viol:
        key = f"{prop}:{r['harness']}:{v['label']}"
        by_key.setdefault(key, []).append((r, v))
    reproduced = {}
    spurious = 0
    replays_run = 0
    for key, lst in sorted(by_key.items()):
        # candidates to replay: the first three, then one per further distinct case taken from the end and
        # the middle of the list (a counterexample that only exists because process-global state leaked from
        # an earlier case of the same worker does not replay in a fresh process; one whose history lies inside
        # its own case does) - the first that reproduces is reported, SPURIOUS only if none does
        cands = list(lst[:3])
        seen_cases = {(r["harness"], r["case_index"]) for r, _ in cands}
        extra = list(reversed(lst[3:]))
        extra = extra[:40] + extra[len(extra) // 2: len(extra) // 2 + 40]
        for r, v in extra:
            ck = (r["harness"], r["case_index"])
            if ck not in seen_cases and len(cands) < 9:
                seen_cases.add(ck)
                cands.append((r, v))
        tried_spurious = []
        for r, v in cands:
            rp = {
                "property": prop, "module": modname, "tier": tier, "harness": r["harness"],
                "case_index": r["case_index"], "case": r["case"], "choices": v.get("choice_list", []),
                "values": v["values"], "repo": repo, "label": v["label"], "claim": v["claim"], "key": key,
            }
            dg = hashlib.sha256(json.dumps(rp, sort_keys=True).encode()).hexdigest()[:12]
            path = os.path.join(replay_dir, f"{dg}.json")
            with open(path, "w") as f:
                json.dump(rp, f, indent=1)
            p = subprocess.run([PY, os.path.join(VERIF, "run_check.py"), "--replay", path], capture_output=True, text=True, env=dict(os.environ, SYMX_REEXEC="1"), timeout=600)
            replays_run += 1
            if p.returncode == 1 and "REPLAY-RESULT reproduced" in p.stdout:
                reproduced.setdefault(key, (path, v))
                break
            tried_spurious.append(path)
        for path in tried_spurious:
            # non-reproducing candidates stay on record; they fail the run only when nothing reproduced for this key
            if key in reproduced:
                lines.append(f"NOTE counterexample did not replay in a fresh process (another one of the same key did) key={key} replay={path}")
            else:
                spurious += 1
                lines.append(f"SPURIOUS counterexample (did not replay) key={key} replay={path}")
    # ---- crosshair verdicts ----------------------------------------------------
    xh_conf = xh_ref = xh_inc = 0
    for xr in xh_results:
        if xr["verdict"] == "confirmed":
            xh_conf += 1
        elif xr["verdict"] == "refuted":
            xh_ref += 1
            key = f"{prop}:xh:{xr['name']}:{xr.get('cex_key', '')}".rstrip(":")
            if xr.get("reproduced"):
                reproduced.setdefault(key, (xr["replay"], {"label": xr["name"], "values": xr.get("args")}))
            else:
                spurious += 1
                lines.append(f"SPURIOUS crosshair counterexample name={xr['name']} args={xr.get('args')}")
        elif xr["verdict"] == "error":
            harness_errors.append(f"crosshair {xr['name']}: {xr.get('detail', '')[:500]}")
        else:
            xh_inc += 1
            lines.append(f"INCONCLUSIVE crosshair condition {xr['name']}: {xr['verdict']}")
        if xr.get("twin") not in (None, "refuted"):
            harness_errors.append(f"crosshair {xr['name']}: reachability twin not refuted ({xr.get('twin')})")
    # ---- verdict lines ---------------------------------------------------------
    n_viol = 0
    seen_known = set()
    for key, (path, v) in sorted(reproduced.items()):
        k = match_known(known, prop, key)
        if k is not None:
            if k["key"] not in seen_known:
                seen_known.add(k["key"])
                lines.append(f"KNOWN-FINDING: property={prop} {k['what']} [key={key}]")
        else:
            n_viol += 1
            lines.append(f"VIOLATION property={prop} replay={path}")
            lines.append(f"  key={key} label={v['label']} values={json.dumps(_jsonable(v.get('values')))[:300]}")
    if agg.get("inconclusive"):
        lines.append(f"INCONCLUSIVE {agg['inconclusive']} of {agg['obligations']} obligations (solver unknown/timeout)")
    # ---- sweep -------------------------------------------------------------------
    if sweep_proc is not None:
        try:
            out, _ = sweep_proc.communicate(timeout=300)
            for ln in out.splitlines():
                if ln.startswith("SWEEP-JSON "):
                    sweep = json.loads(ln[len("SWEEP-JSON "):])
        except subprocess.TimeoutExpired:
            sweep_proc.kill()
    # ---- evidence ----------------------------------------------------------------
    samples = []
    for r in results:
        for s in r["samples"]:
            if len(samples) < 6:
                samples.append({"harness": r["harness"], "case": r["case"], **s})
    for xr in xh_results[:4]:
        samples.append({"crosshair_condition": xr["name"], "verdict": xr["verdict"], "line": xr.get("line", "")[:200]})
    discharged = agg.get("discharged_syntactic", 0) + agg.get("discharged_solver", 0)
    cov = {
        "states": int(agg.get("paths", 0) + sum(1 for _ in xh_results)),
        "transitions": int(agg.get("obligations", 0) + len(xh_results)),
        "traces_validated_against_impl": int((sweep or {}).get("runs", 0) + replays_run + sum(1 for x in xh_results if x.get("replayed"))),
        "samples": samples or [{"note": "no obligations"}],
        "obligations": int(agg.get("obligations", 0)),
        "discharged": int(discharged),
        "discharged_normal_form_zero": int(agg.get("discharged_syntactic", 0)),
        "discharged_by_z3_unsat": int(agg.get("discharged_solver", 0)),
        "raw_crosscheck": {"normal_form_identities_confirmed_by_z3_on_the_unnormalised_expression": int(agg.get("raw_confirmed", 0)),
                           "solver_unknown": int(agg.get("raw_unknown", 0)), "disagreements": int(agg.get("raw_disagree", 0))},
        "refuted_by_z3_model": int(agg.get("refuted", 0)),
        "cross_solver": {k: int(v) for k, v in agg.items() if k.startswith("cross_")},
        "refuted_reproduced_keys": sorted(reproduced),
        "refuted_spurious": spurious,
        "inconclusive": int(agg.get("inconclusive", 0)),
        "inconclusive_obligations": [{"harness": r["harness"], "case": r["case"], "label": i.get("label"), "claim": i.get("claim", "")[:200]}
                                     for r in results for i in r.get("inconclusive", [])][:12],
        "paths": {k: int(agg.get(k, 0)) for k in ("paths", "paths_completed", "paths_infeasible", "paths_unsupported", "paths_out_of_bound", "paths_error")},
        "paths_reaching_assertion_checks": int(agg.get("reached", 0)),
        "branch_feasibility_queries": int(agg.get("branch_queries", 0)),
        "branch_unknown_treated_feasible": int(agg.get("branch_unknown", 0)),
        "solver_wall_s": round(agg.get("solver_s", 0.0), 2),
        "per_harness": per_h,
        "crosshair": {"conditions": len(xh_results), "confirmed": xh_conf, "refuted": xh_ref, "inconclusive": xh_inc,
                      "detail": [{k: x.get(k) for k in ("name", "verdict", "twin", "wall_s", "timeout_s", "line")} for x in xh_results]},
        "functions_encoded": list(getattr(mod, "FUNCTIONS", [])),
        "bounds": getattr(mod, "BOUNDS", {}).get(tier, ""),
        "outside_bounds": getattr(mod, "OUTSIDE", ""),
        "stubs": list(getattr(mod, "STUBS", [])),
        "source_digests": repo_files,
        "oracle_validation_sweep": sweep,
        "float_leaks": max([r.get("float_leaks", 0) for r in results] or [0]),
        "exhaustive": bool(not agg.get("inconclusive") and not agg.get("paths_unsupported") and not harness_errors and xh_inc == 0),
        "engine": "symx (symbolic execution of the instrumented source, z3 %s)" % _z3v() + ("; CrossHair 0.0.110" if xh_results else ""),
        "known_findings_matched": sorted(seen_known),
        "harness_errors": harness_errors[:10],
    }
    cov["evaluations"] = int(agg.get("obligations", 0) + len(xh_results))
    cov["distinct_nontrivial"] = int(agg.get("discharged_solver", 0) + agg.get("refuted", 0) + agg.get("raw_confirmed", 0) + xh_conf + xh_ref)
    cov["rule"] = ("one evaluation = one obligation posed on one explored path of a symbolic harness, or one CrossHair condition (each covering all "
                   "paths within its pre: bounds); non-trivial and distinct = decided by the solver itself (z3 unsat/sat on a residual that did not "
                   "normalise to zero, z3 unsat on the un-normalised expression of an identity the normal form closed, or a CrossHair verdict), counted per obligation/condition; obligations closed by the normal form alone are not counted here")
    evidence["coverage"] = cov
    evidence["violations"] = n_viol
    evidence["wall_s"] = round(time.time() - t0, 2)
    # evidence describes runs against /repo itself; runs against scratch copies (mutants,
    # seeded changes) go to the ignored work directory
    ev_dir = os.path.join(VERIF, "evidence") if os.path.realpath(repo) == "/repo" else os.path.join(VERIF, ".work", "evidence_scratch")
    os.makedirs(ev_dir, exist_ok=True)
    with open(os.path.join(ev_dir, f"{prop}.json"), "w") as f:
        json.dump(evidence, f, indent=1)
    for ln in lines:
        print(ln)
    print(f"[{prop} {tier}] paths={agg.get('paths', 0)} obligations={agg.get('obligations', 0)} discharged={discharged} "
          f"refuted={agg.get('refuted', 0)} inconclusive={agg.get('inconclusive', 0)} unsupported_paths={agg.get('paths_unsupported', 0)} "
          f"xh={xh_conf}/{len(xh_results)} confirmed; sweep={json.dumps(sweep)[:200] if sweep else None}; wall={evidence['wall_s']}s")
    if n_viol:
        return 1
    if spurious:
        # a counterexample that does not replay is an artefact of the engine, a stub or an
        # oracle - and it may be standing in front of a real violation: never a pass
        harness_errors.append(f"{spurious} counterexample(s) did not replay on the plain library (see SPURIOUS lines)")
    if harness_errors:
        for e in harness_errors[:10]:
            print("HARNESS-ERROR", e)
        return 2
    return status


def _z3v():
    try:
        import z3
        return z3.get_version_string()
    except Exception:
        return "?"
