"""
symx.explore -- path exploration (decision-prefix re-execution) with z3 as
the arbiter of branch feasibility and of every obligation.
"""
from __future__ import annotations

import math
import time
import traceback
from fractions import Fraction

import z3

from . import alg
from .alg import ATOMS, Cond, Sx, SymBool, Unsupported


class PathInfeasible(BaseException):
    pass


class PathLimit(BaseException):
    pass


# --------------------------------------------------------------------------
# z3 translation
# --------------------------------------------------------------------------


class Z3Ctx:
    def __init__(self):
        self.vars = {}
        self.pcache = {}

    def atom(self, i):
        v = self.vars.get(i)
        if v is None:
            v = z3.Real(f"a{i}")
            self.vars[i] = v
        return v

    def poly(self, p: dict):
        k = alg.pkey(p)
        r = self.pcache.get(k)
        if r is not None:
            return r
        terms = []
        for m, c in p.items():
            t = z3.Q(c.numerator, c.denominator)
            for a, e in m:
                v = self.atom(a)
                for _ in range(e):
                    t = t * v
            terms.append(t)
        r = z3.Sum(terms) if terms else z3.RealVal(0)
        self.pcache[k] = r
        return r

    def cond(self, c: Cond):
        op = c.op
        if op == "true":
            return z3.BoolVal(True)
        if op == "false":
            return z3.BoolVal(False)
        if op == "and":
            return z3.And(*[self.cond(a) for a in c.args])
        if op == "or":
            return z3.Or(*[self.cond(a) for a in c.args])
        e = self.poly(c.args[0])
        if op == "==":
            return e == 0
        if op == "!=":
            return e != 0
        if op == "<":
            return e < 0
        return e <= 0

    def atom_constraints(self, atom_ids):
        out = []
        for i in alg.closure(atom_ids):
            a = ATOMS[i]
            v = self.atom(i)
            if a.lo is not None:
                out.append(v >= z3.Q(a.lo.numerator, a.lo.denominator))
            if a.hi is not None:
                out.append(v <= z3.Q(a.hi.numerator, a.hi.denominator))
            if a.kind == "root":
                out.append(v >= 0)
                out.append(v * v == self.poly(a.rpoly))
            elif a.kind == "inv":
                out.append(v * self.poly(a.data) == 1)
            elif a.kind == "sin":
                c = self.atom(a.data)
                out.append(v * v + c * c == 1)
            elif a.kind == "fn":
                name, args = a.data
                if name == "pow10":
                    e = self.poly(args[0])
                    out += [v > 0, z3.Implies(e < 0, v < 1), z3.Implies(e > 0, v > 1), z3.Implies(e == 0, v == 1)]
                elif name == "log10":
                    x = self.poly(args[0])
                    out += [z3.Implies(x < 1, v < 0), z3.Implies(x > 1, v > 0), z3.Implies(x == 1, v == 0)]
        return out


def _model_value(model, v):
    r = model.eval(v, model_completion=True)
    if z3.is_rational_value(r):
        return float(Fraction(r.numerator_as_long(), r.denominator_as_long()))
    if z3.is_algebraic_value(r):
        a = r.approx(20)
        return float(Fraction(a.numerator_as_long(), a.denominator_as_long()))
    try:
        return float(r.as_decimal(20).rstrip("?"))
    except Exception:
        return 0.0


# --------------------------------------------------------------------------
# explorer
# --------------------------------------------------------------------------


class Explorer:
    """Runs fn(ctx) once per feasible path."""

    def __init__(self, branch_timeout_ms=3000, check_timeout_ms=20000, max_paths=5000, max_seconds=600, cross=0):
        self.max_seconds = max_seconds
        self.cross = cross   # number of solver-decided obligations to re-decide with other solvers
        self.branch_timeout_ms = branch_timeout_ms
        self.check_timeout_ms = check_timeout_ms
        self.max_paths = max_paths
        self.z = Z3Ctx()
        self.stats = {
            "paths": 0, "paths_completed": 0, "paths_infeasible": 0, "paths_unsupported": 0,
            "paths_error": 0, "paths_out_of_bound": 0, "branch_queries": 0, "branch_unknown": 0,
            "obligations": 0, "discharged_syntactic": 0, "discharged_solver": 0,
            "refuted": 0, "inconclusive": 0, "solver_s": 0.0, "reached": 0, "discharged_linear_abstraction": 0,
            "raw_confirmed": 0, "raw_unknown": 0, "raw_disagree": 0,
        }
        self.violations = []  # dicts
        self.inconclusive = []
        self.unsupported = []
        self.errors = []
        self.samples = []
        # per path
        self.prefix = []
        self.pos = 0
        self.pc = []
        self.pckeys = {}
        self.trace = []

    # ---- feasibility -----------------------------------------------------
    def _build(self, conds, timeout_ms):
        s = z3.Solver()
        s.set("timeout", timeout_ms)
        atoms = set()
        for c in conds:
            atoms |= c.atoms()
        for k in self.z.atom_constraints(atoms):
            s.add(k)
        for c in conds:
            s.add(self.z.cond(c))
        return s, atoms

    def _solve(self, conds, timeout_ms):
        s, atoms = self._build(conds, timeout_ms)
        t0 = time.time()
        r = s.check()
        self.stats["solver_s"] += time.time() - t0
        return str(r), s, atoms

    def _solve_linear_abstraction(self, conds, timeout_ms=2000):
        """Sound pre-step: every distinct non-linear monomial becomes a fresh
        real variable (plus the sign facts of even powers and of atoms with
        known sign); if this relaxation is unsat, so is the original."""
        mvars = {}
        nonneg = set()

        def mono(m):
            v = mvars.get(m)
            if v is None:
                v = z3.Real("m%d" % len(mvars))
                mvars[m] = v
                if all(e % 2 == 0 or ATOMS[a].kind in ("root",) or (ATOMS[a].lo is not None and ATOMS[a].lo >= 0) for a, e in m):
                    nonneg.add(m)
            return v

        def poly(p):
            terms = []
            for m, c in p.items():
                q = z3.Q(c.numerator, c.denominator)
                terms.append(q if not m else q * mono(m))
            return z3.Sum(terms) if terms else z3.RealVal(0)

        def cond(c):
            op = c.op
            if op == "true":
                return z3.BoolVal(True)
            if op == "false":
                return z3.BoolVal(False)
            if op == "and":
                return z3.And(*[cond(a) for a in c.args])
            if op == "or":
                return z3.Or(*[cond(a) for a in c.args])
            e = poly(c.args[0])
            return {"==": e == 0, "!=": e != 0, "<": e < 0, "<=": e <= 0}[op]

        s = z3.Solver()
        s.set("timeout", timeout_ms)
        atoms = set()
        for c in conds:
            s.add(cond(c))
            atoms |= c.atoms()
        for i in alg.closure(atoms):
            a = ATOMS[i]
            m = ((i, 1),)
            if a.lo is not None:
                s.add(mono(m) >= z3.Q(a.lo.numerator, a.lo.denominator))
            if a.hi is not None:
                s.add(mono(m) <= z3.Q(a.hi.numerator, a.hi.denominator))
            if a.kind == "root":
                s.add(mono(m) >= 0)
        for m in list(nonneg):
            s.add(mvars[m] >= 0)
        t0 = time.time()
        r = s.check()
        self.stats["solver_s"] += time.time() - t0
        return str(r)

    def feasible(self, conds):
        # quick syntactic filter
        for c in conds:
            if c.const_value() is False:
                return False
        self.stats["branch_queries"] += 1
        if self._solve_linear_abstraction(conds, 1000) == "unsat":
            return False
        r, _, _ = self._solve(conds, self.branch_timeout_ms)
        if r == "unknown":
            self.stats["branch_unknown"] += 1
        return r != "unsat"

    def confirm_path(self):
        """sat / unsat / unknown for the current path condition (longer budget)"""
        if self._solve_linear_abstraction(self.pc, 2000) == "unsat":
            return "unsat"
        r, _, _ = self._solve(self.pc, self.check_timeout_ms)
        return r

    # ---- decisions -------------------------------------------------------
    def decide(self, cond: Cond) -> bool:
        if self.pos < len(self.prefix) and cond.key() not in self.pckeys and cond.negate().key() not in self.pckeys:
            d = self.prefix[self.pos]
            self.pos += 1
            self.pc.append(cond if d else cond.negate())
            self.pckeys[cond.key()] = bool(d)
            self.trace.append(("b", repr(cond)[:200], d))
            return bool(d)
        neg = cond.negate()
        k = cond.key()
        known = self.pckeys.get(k)
        if known is None and neg.key() in self.pckeys:
            known = not self.pckeys[neg.key()]
        if known is not None:
            # already implied syntactically by the path condition: no fork
            self.trace.append(("i", repr(cond)[:100], int(known)))
            return known
        t = self.feasible(self.pc + [cond])
        if t:
            f = self.feasible(self.pc + [neg])
        else:
            f = True  # pc is feasible, so the other side must be
        if t and f:
            self.work.append(self.prefix + [0])
            d = 1
        elif t:
            d = 1
        else:
            d = 0
        self.prefix.append(d)
        self.pos += 1
        self.pc.append(cond if d else neg)
        self.pckeys[k] = bool(d)
        self.trace.append(("b", repr(cond)[:200], d))
        return bool(d)

    def choice(self, label, n: int) -> int:
        if n <= 0:
            raise PathInfeasible()
        if self.pos < len(self.prefix):
            d = self.prefix[self.pos]
            self.pos += 1
            self.trace.append(("c", label, d))
            return d
        for k in range(n - 1, 0, -1):
            self.work.append(self.prefix + [k])
        self.prefix.append(0)
        self.pos += 1
        self.trace.append(("c", label, 0))
        return 0

    def assume(self, b):
        if isinstance(b, SymBool):
            c = b.cond
        elif isinstance(b, Cond):
            c = b
        else:
            if not b:
                raise PathInfeasible()
            return
        v = c.const_value()
        if v is True:
            return
        if v is False:
            raise PathInfeasible()
        self.pc.append(c)
        if not self.feasible(self.pc):
            raise PathInfeasible()

    def _cross_solver(self, solver, verdict, label):
        """re-decide one obligation with /usr/bin/z3 (4.8.12) and the cvc5 binary on the
        SMT-LIB2 dump; any disagreement is an engine error"""
        import os
        import subprocess
        import tempfile
        smt = "(set-logic QF_NRA)\n" + solver.to_smt2().replace("(set-info :status unknown)", "")
        fd, path = tempfile.mkstemp(suffix=".smt2", dir=os.environ.get("TMPDIR", "/tmp"))
        with os.fdopen(fd, "w") as f:
            f.write(smt)
        try:
            for name, cmd in (("z3-4.8", ["/usr/bin/z3", "-T:10", path]), ("cvc5", ["cvc5", "--tlimit=10000", path])):
                try:
                    p = subprocess.run(cmd, capture_output=True, text=True, timeout=15)
                    out = (p.stdout + p.stderr).strip().splitlines()
                    ans = out[0].strip() if out else "unknown"
                    if any("(error" in ln for ln in out):
                        ans = "error"
                except Exception:
                    ans = "timeout"
                k = f"cross_{name}_" + ("agree" if ans == verdict else ("disagree" if ans in ("sat", "unsat") else "no-answer"))
                self.stats[k] = self.stats.get(k, 0) + 1
                if ans in ("sat", "unsat") and ans != verdict:
                    self.errors.append({"error": f"cross-solver disagreement on {label}: z3 5.x says {verdict}, {name} says {ans}", "choices": self._choices()})
        finally:
            os.unlink(path)

    # ---- raw (un-normalised) cross-check of the normal form ----------------------
    def raw_to_z3(self, node, memo, extra):
        """(re, im) z3 expressions of an un-normalised expression tree; leaves are
        normal-form scalars; sqrt/reciprocal nodes introduce fresh constrained reals"""
        k = id(node)
        r = memo.get(k)
        if r is not None:
            return r
        op = node[0]
        if op == "leaf":
            x = node[1]
            r = (self.z.poly(x.re), self.z.poly(x.im))
            memo.setdefault("atoms", set()).update(x.atoms())
        elif op == "+":
            a, b = self.raw_to_z3(node[1], memo, extra), self.raw_to_z3(node[2], memo, extra)
            r = (a[0] + b[0], a[1] + b[1])
        elif op == "neg":
            a = self.raw_to_z3(node[1], memo, extra)
            r = (-a[0], -a[1])
        elif op == "conj":
            a = self.raw_to_z3(node[1], memo, extra)
            r = (a[0], -a[1])
        elif op == "*":
            a, b = self.raw_to_z3(node[1], memo, extra), self.raw_to_z3(node[2], memo, extra)
            r = (a[0] * b[0] - a[1] * b[1], a[0] * b[1] + a[1] * b[0])
        elif op == "abs2":
            a = self.raw_to_z3(node[1], memo, extra)
            r = (a[0] * a[0] + a[1] * a[1], z3.RealVal(0))
        elif op == "re":
            a = self.raw_to_z3(node[1], memo, extra)
            r = (a[0], z3.RealVal(0))
        elif op == "im":
            a = self.raw_to_z3(node[1], memo, extra)
            r = (a[1], z3.RealVal(0))
        elif op == "rinv":
            a = self.raw_to_z3(node[1], memo, extra)
            v = z3.Real("rawinv%d" % len(extra))
            extra.append(v * a[0] == 1)
            r = (v, z3.RealVal(0))
        else:
            raise AssertionError(op)
        memo[k] = r
        return r

    def raw_crosscheck(self, pairs, label):
        """z3 on the un-normalised residuals of an equality the normal form closed:
        unsat = confirmed by the solver on the raw expression, sat = the normaliser and
        the solver DISAGREE (engine error), unknown = left to the normal form."""
        memo, extra, disj = {}, [], []
        for a, b in pairs:
            if a.raw is None and b.raw is None:
                continue
            ra = self.raw_to_z3(alg._rawof(a), memo, extra)
            rb = self.raw_to_z3(alg._rawof(b), memo, extra)
            disj.append(ra[0] - rb[0] != 0)
            disj.append(ra[1] - rb[1] != 0)
        if not disj:
            return None
        s = z3.Solver()
        s.set("timeout", 3000)
        atoms = set(memo.get("atoms", set()))
        for c in self.pc:
            atoms |= c.atoms()
            s.add(self.z.cond(c))
        for k in self.z.atom_constraints(atoms):
            s.add(k)
        for e in extra:
            s.add(e)
        s.add(z3.Or(*disj))
        t0 = time.time()
        r = str(s.check())
        self.stats["solver_s"] += time.time() - t0
        key = {"unsat": "raw_confirmed", "sat": "raw_disagree", "unknown": "raw_unknown"}[r]
        self.stats[key] = self.stats.get(key, 0) + 1
        if r == "sat":
            self.errors.append({"error": f"raw cross-check: z3 refutes an identity the normal form closed ({label})", "choices": self._choices()})
        return r

    # ---- obligations -------------------------------------------------------
    def check_cond(self, cond: Cond, label, info=None):
        """Obligation: cond holds on this path for all values."""
        self.stats["obligations"] += 1
        v = cond.const_value()
        if v is True:
            self.stats["discharged_syntactic"] += 1
            return True
        neg = cond.negate()
        if self._solve_linear_abstraction(self.pc + [neg]) == "unsat":
            self.stats["discharged_solver"] += 1
            self.stats["discharged_linear_abstraction"] = self.stats.get("discharged_linear_abstraction", 0) + 1
            if len(self.samples) < 3:
                self.samples.append({"label": label, "choices": self._choices(), "negated_claim": repr(neg)[:300], "verdict": "unsat (monomial-linearised relaxation, QF_LRA)"})
            if self.cross > 0:
                self.cross -= 1
                self._cross_solver(self._build(self.pc + [neg], 1000)[0], "unsat", label)
            return True
        r, s, atoms = self._solve(self.pc + [neg], self.check_timeout_ms)
        if len(self.samples) < 3:
            self.samples.append({"label": label, "choices": self._choices(), "negated_claim": repr(neg)[:300], "verdict": r})
        if self.cross > 0 and r in ("sat", "unsat"):
            self.cross -= 1
            self._cross_solver(s, r, label)
        if r == "unsat":
            self.stats["discharged_solver"] += 1
            return True
        if r == "sat":
            self.stats["refuted"] += 1
            m = s.model()
            vals = {}
            for i in alg.closure(atoms):
                a = ATOMS[i]
                if a.kind in ("var", "cos", "sin", "fn"):
                    vals[a.name] = _model_value(m, self.z.atom(i))
            self.violations.append({
                "label": label, "choices": self._choices(), "values": vals,
                "choice_list": [d for (k, _, d) in self.trace if k == "c"],
                "claim": repr(cond)[:500], "info": info,
                "pc": [repr(c)[:200] for c in self.pc][:20],
            })
            return False
        self.stats["inconclusive"] += 1
        self.inconclusive.append({"label": label, "choices": self._choices(), "claim": repr(cond)[:300]})
        return None

    def _choices(self):
        return list(self.prefix[: self.pos])

    # ---- driver -----------------------------------------------------------
    def run(self, fn, make_ctx):
        self.work = [[]]
        alg.set_explorer(self)
        try:
            t_start = time.time()
            while self.work:
                if time.time() - t_start > self.max_seconds:
                    self.errors.append({"error": f"time budget of {self.max_seconds}s reached", "remaining": len(self.work)})
                    break
                if self.stats["paths"] >= self.max_paths:
                    self.errors.append({"error": "path limit reached", "remaining": len(self.work)})
                    break
                self.prefix = self.work.pop()
                self.pos = 0
                self.pc = []
                self.pckeys = {}
                self.trace = []
                self.stats["paths"] += 1
                ctx = make_ctx(self)
                try:
                    fn(ctx)
                    self.stats["paths_completed"] += 1
                except PathInfeasible:
                    self.stats["paths_infeasible"] += 1
                except alg.OutOfBound:
                    self.stats["paths_out_of_bound"] += 1
                except Unsupported as e:
                    self.stats["paths_unsupported"] += 1
                    if len(self.unsupported) < 20:
                        self.unsupported.append({"what": str(e), "choices": self._choices(), "tb": traceback.format_exc(limit=-6)})
                except Exception as e:  # harness or engine error
                    self.stats["paths_error"] += 1
                    if len(self.errors) < 20:
                        self.errors.append({"error": f"{type(e).__name__}: {e}", "choices": self._choices(), "tb": traceback.format_exc(limit=-8)})
        finally:
            alg.set_explorer(alg._NoExplorer())
        return self
