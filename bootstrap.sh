#!/bin/bash
# Idempotent: builds the overlay venv /verif/.venv (python of /venv + its
# site-packages + crosshair-tool, z3-solver, cvc5 from the offline wheelhouse).
set -e
cd "$(dirname "$0")"
V="$(pwd)/.venv"
if [ -x $V/bin/python ] && $V/bin/python -c "import z3, crosshair, numpy" 2>/dev/null; then
  exit 0
fi
rm -rf $V
/venv/bin/python -m venv $V
SP=$($V/bin/python -c "import sysconfig; print(sysconfig.get_paths()['purelib'])")
echo "import site; site.addsitedir('/venv/lib/python3.12/site-packages')" > $SP/verif_overlay.pth
PIP_NO_INDEX=1 $V/bin/pip install -q --no-index --find-links /opt/veriftools/wheels crosshair-tool z3-solver cvc5 >/dev/null 2>&1 || \
PIP_NO_INDEX=1 $V/bin/pip install --no-index --find-links /opt/veriftools/wheels crosshair-tool z3-solver cvc5
$V/bin/python -c "import z3, crosshair, numpy; print('overlay ok', z3.get_version_string())"
