"""C05 -- Simulator, Sampler, Analyzer and QuickSampler tell one consistent story."""
from fractions import Fraction

from . import ref
from .c04 import SHAPES, TAU, _build, _n_loss, _space

PROPERTY = "C05"
LEVEL = "model_checking"
FUNCTIONS = [
    "lightworks.emulator.simulation.analyzer.Analyzer.analyze/_process_inputs/_generate_outputs/_get_probs/_calculate_error_rate",
    "lightworks.emulator.simulation.quick_sampler.QuickSampler.probability_distribution/_calculate_probabiltiies",
    "lightworks.emulator.simulation.simulator.Simulator.simulate", "lightworks.emulator.backend.backend.Backend.probability",
    "lightworks.sdk.utils.post_selection.PostSelection.add/validate, Rule.validate, PostSelectionFunction", "lightworks.emulator.utils.post_selection_processing.process_post_selection",
]
ASSUMPTIONS = [
    "A-REAL; A-LOADER; A-EXT; thewalrus.perm stubbed by a definitional permanent",
    "every object is compared with the same symbolic reference (Fock amplitudes of the library's U_full by definition, loss-marginalised); pairwise agreement follows; the Sampler side of that reference is C04",
    "QuickSampler's 1e-9 threshold comparisons fork and both sides are explored when feasible",
]
BOUNDS = {
    "quick": "symbolic bs/ps/loss shapes of C04 on 2-3 modes with 0-1 herald (photon number 0..1, in != out allowed), <=2 user photons (0 with a photon-carrying herald), several single-mode rules on one mode (multi_rules) for 2 photons, 1-2 equal-photon inputs with distinct expected outputs in either mapping order; post-selection: none, one or two rules, a predicate on indices, a predicate using the State API; both detector modes of the quick sampler",
    "thorough": "adds 3 photons on lossless shapes and two-herald circuits",
}
OUTSIDE = "photon numbers and sizes above the bound; float rounding"
STUBS = ["thewalrus.perm -> definitional permanent"]

POSTSEL = ["none", "rule1", "rule2", "func", "statefunc", "multi"]


def _mk_postselect(ctx, kind, n_user):
    lw = ctx.lw
    if kind == "none":
        return None, (lambda s: True)
    if kind == "rule1":
        ps = lw.PostSelection()
        ps.add(0, (0, 1))
        return ps, (lambda s: s[0] in (0, 1))
    if kind == "rule2":
        ps = lw.PostSelection()
        ps.add((0, n_user - 1), 1) if n_user > 1 else ps.add(0, 1)
        return ps, (lambda s: (s[0] + s[n_user - 1] if n_user > 1 else s[0]) == 1)
    if kind == "multi":
        # several rules on the same mode (multi_rules=True): an output is accepted only if every rule holds
        ps = lw.PostSelection(multi_rules=True)
        ps.add(0, (0, 1))
        ps.add(0, (1, 2))
        return ps, (lambda s: s[0] == 1)
    if kind == "statefunc":
        # a predicate written against the State API (what the Sampler hands to predicates)
        one = lw.State([1])
        g = lambda s: s.n_photons >= 1 and (s[0:1] == one or s[0] == 0)  # noqa: E731
        return g, (lambda s: s[0] <= 1 and sum(s) >= 1)
    f = lambda s: s[0] <= 1 and sum(s) >= 1  # noqa: E731
    return f, (lambda s: s[0] <= 1 and sum(s) >= 1)


def _setup(ctx, shape, herald):
    lw = ctx.lw
    c = _build(ctx, shape)
    hin, hout = {}, {}
    if herald:
        for (p, hi, ho) in herald:
            c.herald(p, hi, ho)
            hin[hi] = p
            hout[ho] = p
    return c, hin, hout


def _exact(ctx, U, n, n_loss, full_in, hout, n_user_photons_max):
    """exact probability of every user output (heralds satisfied), summed over loss"""
    out = {}
    k = sum(full_in)
    hp = sum(hout.values())
    n_user = n - len(hout)
    for ku in range(0, n_user_photons_max + 1):
        for uo in ref.fock_states(n_user, ku):
            full_real = ref.insert_heralds(uo, hout)
            lost = k - ku - hp
            if lost < 0:
                continue
            tot = 0
            terms = []
            for ls in (ref.fock_states(n_loss, lost) if n_loss else ([[]] if lost == 0 else [])):
                a = ref.fock_amp(ctx, U, full_in, full_real + ls)
                t = ctx.m.abs2(a)
                terms.append(t)
                tot = tot + t
            out[tuple(uo)] = (tot, terms)
    return out


def h_analyzer(ctx, shape, herald, k, postsel, two_inputs):
    lw = ctx.lw
    c, hin, hout = _setup(ctx, shape, herald)
    n = c.n_modes
    n_user = c.input_modes
    cc = c._build()
    U, n_loss = cc.U_full, cc.loss_modes
    ps, pred = _mk_postselect(ctx, postsel, n_user)
    ins = ref.fock_states(n_user, k)
    i1 = ctx.choice("in1", list(range(len(ins))))
    chosen = [ins[i1]]
    if two_inputs and len(ins) > 1:
        i2 = ctx.choice("in2", [j for j in range(len(ins)) if j != i1])
        chosen.append(ins[i2])
    inputs = [lw.State(s) for s in chosen]
    an = lw.emulator.Analyzer(c)
    if ps is not None:
        an.post_selection = ps
    # expected mapping: the first accepted output for each input
    cand = [o for kk in (range(k + 1) if n_loss else [k]) for o in ref.fock_states(n_user, kk) if pred(o)]
    if not cand:
        try:
            an.analyze(inputs)
        except ValueError:
            ctx.check(True, "analyzer:no-valid-outputs-is-a-clean-error")
            return
        ctx.fail("analyzer:no-valid-outputs-is-a-clean-error")
        return
    # each input gets its own expected output where there are enough of them,
    # and the mapping is written in the opposite order to `inputs` for half of
    # the input pairs (the pairing is by key, not by position)
    exp_idx = [i if i < len(cand) else 0 for i in range(len(chosen))]
    items = list(zip(inputs, exp_idx))
    if len(chosen) > 1 and chosen[0] < chosen[1]:
        items.reverse()
    expected = {st: lw.State(cand[e]) for st, e in items}
    try:
        res = an.analyze(inputs if two_inputs else inputs[0], expected)
    except ZeroDivisionError:
        ctx.reached()
        return  # a row total of exactly zero: error rate undefined (library divides by it)
    except Exception as e:
        ctx.fail("analyzer:works-on-every-circuit-the-others-accept", f"{type(e).__name__}: {e}"[:150])
        return
    outs = [tuple(o.s) for o in res.outputs]
    ctx.check(sorted(outs) == sorted(tuple(o) for o in cand), "analyzer:outputs-are-exactly-the-post-selected-heralded-outputs")
    rows = []
    for i, st in enumerate(chosen):
        full_in = ref.insert_heralds(st, hin) + [0] * n_loss
        ex = _exact(ctx, U, n, n_loss, full_in, hout, k)
        row_tot = 0
        for j, o in enumerate(outs):
            want = ex[o][0]
            ctx.check_eq(res.array[i, j], want, "analyzer:probability-equals-heralded-loss-marginalised-probability")
            row_tot = row_tot + want
        rows.append((row_tot, ex[tuple(cand[exp_idx[i]])][0]))
    perf = 0
    for rt, _ in rows:
        perf = perf + rt
    ctx.check_eq(res.performance * len(rows), perf, "analyzer:performance-is-mean-accepted-total")
    # error rate = 1 - mean(expected / row total), stated without division
    #   (1 - err) * len * prod(row totals) == sum_i exp_i * prod_{j != i} row_j
    lhs = (1 - res.error_rate) * len(rows)
    prod_all = 1
    for rt, _ in rows:
        prod_all = prod_all * rt
    rhs = 0
    for i, (rt, ev) in enumerate(rows):
        t = ev
        for j, (rt2, _) in enumerate(rows):
            if j != i:
                t = t * rt2
        rhs = rhs + t
    ctx.check_eq(lhs * prod_all, rhs, "analyzer:error-rate-is-one-minus-accepted-and-expected-fraction")


def h_quick(ctx, shape, herald, k, postsel, counting):
    lw = ctx.lw
    c, hin, hout = _setup(ctx, shape, herald)
    n = c.n_modes
    n_user = c.input_modes
    cc = c._build()
    U, n_loss = cc.U_full, cc.loss_modes
    ps, pred = _mk_postselect(ctx, postsel, n_user)
    inp = ctx.choice("input", ref.fock_states(n_user, k))
    full_in = ref.insert_heralds(inp, hin) + [0] * n_loss
    cand = [o for o in ref.fock_states(n_user, k) if pred(o) and (counting or max(o) <= 1)]
    try:
        qs = lw.emulator.QuickSampler(c, lw.State(inp), photon_counting=counting, post_select=ps)
        pd = qs.probability_distribution
    except ZeroDivisionError:
        ctx.reached()
        return
    except (AttributeError, TypeError) as e:
        ctx.fail("quick:predicate-receives-what-the-sampler-hands-to-predicates", repr(e)[:100])
        return
    except (ValueError, lw.emulator.EmulatorError) as e:
        # legitimate only when nothing can be accepted
        if not cand:
            ctx.check(True, "quick:no-valid-outputs-is-a-clean-error")
            return
        # ... or every candidate is below the threshold on this path
        tau = ctx.m.frac(TAU.numerator, TAU.denominator)
        allsmall = True
        for o in cand:
            t = ctx.m.abs2(ref.fock_amp(ctx, U, full_in, ref.insert_heralds(o, hout) + [0] * n_loss))
            if bool(t > tau):
                allsmall = False
        ctx.check(allsmall, "quick:works-on-every-circuit-the-others-accept", repr(e)[:100])
        return
    tau = ctx.m.frac(TAU.numerator, TAU.denominator)
    kept = {}
    tot = 0
    for o in cand:
        t = ctx.m.abs2(ref.fock_amp(ctx, U, full_in, ref.insert_heralds(o, hout) + [0] * n_loss))
        if bool(t > tau):
            kept[tuple(o)] = t
            tot = tot + t
    got = {tuple(s.s): v for s, v in pd.items()}
    ctx.check(sorted(got) == sorted(kept), "quick:support-is-heralded-post-selected-no-loss-outputs")
    s = 0
    for o, t in kept.items():
        if o in got:
            # got = t / tot, without division
            ctx.check_eq(got[o] * tot, t, "quick:value-is-conditional-probability-renormalised")
            s = s + got[o]
    if kept:
        ctx.check_eq(s, 1, "quick:normalised")


def h_simulator_squares(ctx, shape, herald, k):
    """squared simulator amplitudes equal analyzer probabilities on lossless circuits"""
    lw = ctx.lw
    c, hin, hout = _setup(ctx, shape, herald)
    n_user = c.input_modes
    inp = ctx.choice("input", ref.fock_states(n_user, k))
    sim = lw.emulator.Simulator(c).simulate(lw.State(inp))
    try:
        an = lw.emulator.Analyzer(c).analyze(lw.State(inp))
    except Exception as e:
        ctx.fail("analyzer:works-on-every-circuit-the-others-accept", f"{type(e).__name__}: {e}"[:150])
        return
    for o in sim.outputs:
        ctx.check_eq(ctx.m.abs2(sim[lw.State(inp), o]), an[lw.State(inp), o], "simulator-squared-amplitude-equals-analyzer-probability")


HERALDS = {2: [None, [(0, 1, 1)], [(1, 0, 1)]], 3: [None, [(1, 2, 2)], [(1, 0, 2)], [(0, 1, 0)]]}


def harnesses(tier):
    an, qs, sq = [], [], []
    kmax = 2 if tier == "quick" else 3
    for shape in ("bs", "bs-loss", "loss-bs-loss", "tri", "tri-loss"):
        n = SHAPES[shape][0]
        nl = _n_loss(shape)
        for her in HERALDS[n]:
            hp = sum(p for (p, _, _) in her) if her else 0
            n_user = n - (len(her) if her else 0)
            for k in range(0, kmax + 1):
                if _space(n + nl, k + hp) > (10 if tier == "quick" else 15):
                    continue
                for psl in POSTSEL:
                    if k == 0 and psl != "none":
                        continue
                    if psl == "multi" and k < 2:
                        continue
                    an.append(dict(shape=shape, herald=her, k=k, postsel=psl, two_inputs=(psl in ("none", "rule1") and k >= 1 and k + hp <= 3)))
                    if (k >= 1 or hp >= 1) and _space(n + nl, k + hp) <= 6:
                        for counting in (True, False):
                            qs.append(dict(shape=shape, herald=her, k=k, postsel=psl, counting=counting))
                if nl == 0:
                    sq.append(dict(shape=shape, herald=her, k=k))
    if tier != "quick":
        an.append(dict(shape="tri", herald=[(1, 0, 2), (0, 2, 1)], k=1, postsel="none", two_inputs=False))
        an.append(dict(shape="tri-loss", herald=[(1, 0, 2), (1, 2, 0)], k=1, postsel="none", two_inputs=False))
    return [
        ("analyzer", h_analyzer, an),
        ("quick-sampler", h_quick, qs, dict(check_timeout_ms=30000)),
        ("simulator-squares", h_simulator_squares, sq),
        ("simulator-squares.raw", h_simulator_squares, sq[::2], dict(raw=True)),
        ("analyzer.raw", h_analyzer, [c for c in an if not c["two_inputs"]][::20], dict(raw=True)),
    ]
