"""C02 -- adding a sub-circuit wires it in order; heralded modes become private ancillas."""
import itertools

import numpy as _np

from . import ref

PROPERTY = "C02"
LEVEL = "model_checking"
FUNCTIONS = [
    "lightworks.sdk.circuit.circuit.Circuit.add/_map_mode/_add_empty_mode/herald/copy/unpack_groups/heralds/input_modes",
    "lightworks.sdk.circuit.circuit_utils.add_modes_to_circuit_spec/add_empty_mode_to_circuit_spec/unpack_circuit_spec",
    "lightworks.sdk.utils.matrix_utils.add_mode_to_unitary",
    "compile path of C01",
]
ASSUMPTIONS = [
    "A-REAL; A-LOADER; A-EXT",
    "sub-circuits and parents carry fully symbolic complex blocks written into UnitaryMatrix components directly (check_unitary bypassed: the wiring identity is linear in the blocks and does not depend on unitarity)",
    "one step of add is checked relative to the library's own U_full of the sub-circuit and of the parent before the call; because the sub-circuit may itself contain earlier additions, this covers nesting by induction (stated)",
    "wiring is asserted up to relabelling of the new ancillas and up to re-pairing of herald inputs/outputs that carry the same photon number (amplitude-equivalent)",
]
BOUNDS = {
    "quick": "parents with 2..3 user modes and 0..1 earlier heralded sub-circuit (2 modes, any herald in/out, any position); added circuit of 2..3 modes with 0..2 heralds (all in/out mode tuples, both declaration orders, photon numbers (1,0)/(1,1)), optional loss element, optional inner heralded group (nesting; also added after the sub-circuit's own two heralds were declared, k = 3, 4), every placement incl. one past the end, both group flags",
    "thorough": "parents up to 4 user modes and up to 2 earlier sub-circuits; added circuits up to 4 modes",
}
OUTSIDE = "larger sizes; more than one loss element in the added circuit"
STUBS = []


def _block_circuit(ctx, name, k):
    """Circuit(k) holding one fully symbolic k x k block."""
    lw = ctx.lw
    A = ctx.cmatrix(name, k)
    c = lw.Unitary(ctx.np.identity(k))
    c._Circuit__circuit_spec[0].unitary = A
    return c


def _perm_index(after_n, new_set):
    """order preserving injection from before-modes to after-modes avoiding new_set"""
    return [i for i in range(after_n) if i not in new_set]


def _candidates(h_before, h_after_in, h_after_out, n_after, sub_in, sub_out):
    """yield (N, iota, sig_in, sig_out): new ancilla set, lift map, ancilla for each herald input / output of the sub-circuit."""
    keys_after = sorted(h_after_in)
    h = len(sub_in)
    for N in itertools.combinations(keys_after, h):
        Nset = set(N)
        iota = _perm_index(n_after, Nset)
        ok = True
        for a, p in h_before.items():
            if h_after_in.get(iota[a]) != p or h_after_out.get(iota[a]) != p or iota[a] in Nset:
                ok = False
                break
        if not ok:
            continue
        if set(iota[a] for a in h_before) | Nset != set(keys_after):
            continue
        ins = list(sub_in.items())
        outs = list(sub_out.items())
        for pin in itertools.permutations(N):
            if any(h_after_in[pin[i]] != ins[i][1] for i in range(h)):
                continue
            for pout in itertools.permutations(N):
                if any(h_after_out[pout[i]] != outs[i][1] for i in range(h)):
                    continue
                yield Nset, iota, {ins[i][0]: pin[i] for i in range(h)}, {outs[i][0]: pout[i] for i in range(h)}


def check_add_step(ctx, parent, sub, mode, group, label, snapshot=None):
    """One call parent.add(sub, mode, group) against the relative wiring oracle."""
    lw = ctx.lw
    Ub = parent.U_full
    nb = parent.n_modes
    hb = parent.heralds
    users_b = [i for i in range(nb) if i not in hb["input"]]
    ctx.check(set(hb["input"]) == set(hb["output"]), label + ":pre:parent-heralds-on-same-modes")
    Us = sub.U_full
    ks = sub.n_modes
    hs = sub.heralds
    s_in = [i for i in range(ks) if i not in hs["input"]]
    s_out = [i for i in range(ks) if i not in hs["output"]]
    h = len(hs["input"])
    loss_b = Ub.shape[0] - nb
    loss_s = Us.shape[0] - ks
    need = ks - h
    valid = isinstance(mode, int) and 0 <= mode and mode + need <= len(users_b)
    sub_obs = (sub.n_modes, sub.heralds, len(sub._get_circuit_spec()))
    try:
        parent.add(sub, mode, group)
    except lw.ModeRangeError:
        ctx.check(not valid, label + ":valid-addition-rejected")
        ctx.check(parent.n_modes == nb and parent.heralds == hb, label + ":rejected-addition-leaves-parent-unchanged")
        return False
    ctx.check(valid, label + ":oversize-addition-accepted")
    if not valid:
        return False
    ctx.check((sub.n_modes, sub.heralds, len(sub._get_circuit_spec())) == sub_obs, label + ":argument-unchanged")
    na = parent.n_modes
    ha = parent.heralds
    ctx.check(na == nb + h, label + ":n_modes-grows-by-number-of-heralds")
    ctx.check(parent.input_modes == len(users_b), label + ":input_modes-unchanged")
    ctx.check(set(ha["input"]) == set(ha["output"]) and all(ha["input"][k] == ha["output"][k] for k in ha["input"]), label + ":ancillas-carry-same-photon-number-in-and-out")
    ctx.check(len(ha["input"]) == len(hb["input"]) + h, label + ":one-ancilla-per-herald")
    try:
        Ua = parent.U_full
    except lw.CircuitCompilationError as e:
        ctx.fail(label + ":result-does-not-compile", repr(e.__cause__)[:120])
        return False
    ctx.check(Ua.shape[0] == na + loss_b + loss_s, label + ":U_full-size")
    if Ua.shape[0] != na + loss_b + loss_s or na != nb + h or len(ha["input"]) != len(hb["input"]) + h:
        return False
    T = Ua.shape[0]
    cands = []
    for Nset, iota, sig_in, sig_out in _candidates(hb["input"], ha["input"], ha["output"], na, hs["input"], hs["output"]):
        users_a = [iota[u] for u in users_b]
        if users_a != [i for i in range(na) if i not in ha["input"]]:
            continue
        # lift of the state before
        full_iota = iota + [na + i for i in range(loss_b)]
        L = ref.eye(ctx, T)
        for a in range(nb + loss_b):
            for b in range(nb + loss_b):
                L[full_iota[a], full_iota[b]] = Ub[a, b]
        # embedding of the sub-circuit
        col = {}
        row = {}
        for j, sm in enumerate(s_in):
            col[sm] = users_a[mode + j]
        for j, sm in enumerate(s_out):
            row[sm] = users_a[mode + j]
        col.update(sig_in)
        row.update(sig_out)
        for i in range(loss_s):
            col[ks + i] = na + loss_b + i
            row[ks + i] = na + loss_b + i
        W = ref.eye(ctx, T)
        touched = sorted(set(col.values()) | set(row.values()))
        for t in touched:
            W[t, t] = 0
        for x in range(ks + loss_s):
            for y in range(ks + loss_s):
                W[row[x], col[y]] = Us[x, y]
        cands.append(ref.matmul(ctx, W, L))
    if not cands:
        ctx.fail(label + ":no-consistent-ancilla-assignment")
        return False
    if ctx.symbolic:
        from symx import alg
        conds = []
        for want in cands:
            cs = []
            for i in range(T):
                for j in range(T):
                    d = alg.const(Ua[i, j]) - alg.const(want[i, j])
                    if d.re:
                        cs.append(alg.Cond("==", alg.clear_inv(d.re)))
                    if d.im:
                        cs.append(alg.Cond("==", alg.clear_inv(d.im)))
            if not cs:
                ctx.check(True, label + ":wired-in-order-to-user-modes-and-private-ancillas")
                return True
            conds.append(alg.Cond("and", *cs) if len(cs) > 1 else cs[0])
        ctx.check(alg.Cond("or", *conds) if len(conds) > 1 else conds[0], label + ":wired-in-order-to-user-modes-and-private-ancillas")
    else:
        best = min(float(_np.max(_np.abs(_np.asarray(Ua, dtype=complex) - _np.asarray(w, dtype=complex)))) for w in cands)
        ctx.check(best <= ctx.tol, label + ":wired-in-order-to-user-modes-and-private-ancillas", {"max_abs_diff": best})
    return True


def _mk_sub(ctx, name, k, heralds, lossy=False, inner=None):
    """sub-circuit: symbolic block (optionally an inner heralded group first), heralds declared in the given order."""
    lw = ctx.lw
    if inner is not None and len(inner) > 4:
        # the sub-circuit declares its own heralds first and receives an inner
        # heralded circuit afterwards (its herald bookkeeping is shifted by the
        # inserted ancilla before it is itself added to the parent)
        c = lw.Circuit(k)
        c.add(_block_circuit(ctx, name + "o", k), 0)
        for (p, hi, ho) in heralds:
            c.herald(p, hi, ho)
        isub = _block_circuit(ctx, name + "i", 2)
        isub.herald(inner[0], inner[1], inner[2])
        c.add(isub, inner[3])
        return c
    if inner is None:
        c = _block_circuit(ctx, name, k)
    else:
        c = lw.Circuit(k)
        c.add(_block_circuit(ctx, name + "o", k), 0)
        isub = _block_circuit(ctx, name + "i", 2)
        isub.herald(inner[0], inner[1], inner[2])
        c.add(isub, inner[3])
    if lossy:
        c.loss(0, ctx.real(name + "lam", 0, 1))
    for (p, hi, ho) in heralds:
        c.herald(p, hi, ho)
    return c


def h_add(ctx, n, earlier, k, heralds, lossy, inner, group):
    lw = ctx.lw
    parent = lw.Circuit(n)
    parent.add(_block_circuit(ctx, "B", n), 0)
    for e, (ek, eh) in enumerate(earlier):
        es = _mk_sub(ctx, f"C{e}", ek, eh)
        pos = ctx.choice(f"earlier{e}-at", list(range(0, parent.input_modes - (ek - len(eh)) + 1)))
        ok = check_add_step(ctx, parent, es, pos, False, f"earlier{e}")
        if not ok:
            return
    sub = _mk_sub(ctx, "A", k, heralds, lossy, inner)
    k_user = sub.input_modes
    mode = ctx.choice("at", list(range(0, parent.input_modes - k_user + 2)))
    if not check_add_step(ctx, parent, sub, mode, group, "add"):
        return
    # a later primitive addressed by user numbering skips every ancilla
    m = ctx.choice("later-mode", list(range(parent.input_modes)))
    hm = set(parent.heralds["input"])
    Ub = parent.U_full
    phi = ctx.angle("later-phi")
    parent.ps(m, phi)
    Ua = parent.U_full
    users = [i for i in range(parent.n_modes) if i not in hm]
    E = ref.embed_ps(ctx, Ub.shape[0], users[m], phi)
    ctx.check_eq(Ua, ref.matmul(ctx, E, Ub), "later:numbering-skips-ancillas")


def _herald_sets(k, nh, tier):
    out = []
    if nh == 0:
        return [[]]
    photon_sets = {1: [(1,), (0,)], 2: [(1, 0), (1, 1)]}[nh]
    for ins in itertools.permutations(range(k), nh):
        for outs in itertools.permutations(range(k), nh):
            for ps in photon_sets:
                out.append([(ps[i], ins[i], outs[i]) for i in range(nh)])
    return out


def cases(tier):
    out = []
    ns = (2, 3) if tier == "quick" else (2, 3, 4)
    earlier_opts = [[]]
    for hi in range(2):
        for ho in range(2):
            earlier_opts.append([(2, [(1, hi, ho)])])
    # parents that already hold two ancillas (adjacent / separated) from one earlier addition
    earlier_opts.append([(4, [(1, 1, 1), (0, 2, 2)])])
    earlier_opts.append([(3, [(1, 0, 0), (0, 2, 1)])])
    if tier != "quick":
        earlier_opts.append([(2, [(1, 0, 1)]), (2, [(0, 1, 1)])])
        earlier_opts.append([(3, [(1, 2, 0)]), (2, [(1, 0, 0)])])
    for n in ns:
        for earlier in earlier_opts:
            for k in ((2, 3) if tier == "quick" else (2, 3, 4)):
                for nh in (0, 1, 2):
                    if nh >= k or (k - nh) > n:
                        continue
                    hsets = _herald_sets(k, nh, tier)
                    if k == 4:
                        hsets = hsets[::7]
                    for hs in hsets:
                        for group in (False, True):
                            if nh > 0 and not group:
                                continue  # grouping is forced for heralded circuits; flag irrelevant
                            out.append(dict(n=n, earlier=earlier, k=k, heralds=hs, lossy=False, inner=None, group=group))
                    # lossy and nested variants on a thinner slice
                    for hs in hsets[:: max(1, len(hsets) // 3)]:
                        out.append(dict(n=n, earlier=earlier, k=k, heralds=hs, lossy=True, inner=None, group=True))
                    if k == 3 and nh <= 1:
                        for hs in hsets[:: max(1, len(hsets) // 3)]:
                            if any(hi == 0 or ho == 0 for (_, hi, ho) in hs):
                                continue
                            out.append(dict(n=n, earlier=earlier, k=k, heralds=[(p, hi + 1, ho + 1) for (p, hi, ho) in hs if hi + 1 < 4 and ho + 1 < 4][:0] or hs, lossy=False, inner=(1, 0, 1, 0), group=True))
    # sub-circuits whose own heralds were declared before an inner heralded
    # circuit was added to them (nesting depth 2, ancilla inserted between the
    # sub-circuit's herald modes)
    for k in ((3, 4) if tier == "quick" else (3, 4, 5)):
        hsets = [hs for hs in _herald_sets(k, 2, tier) if hs[0][0] != hs[1][0]]
        if tier == "quick":
            hsets = hsets[:: (1 if k == 3 else 5)]
        for hs in hsets:
            for pos in range(k - 2):
                for n, earlier in ((max(2, k - 2), []), (3, [(2, [(1, 0, 1)])])):
                    if k - 2 + 1 > n + 0:
                        pass
                    out.append(dict(n=n, earlier=earlier, k=k, heralds=hs, lossy=False, inner=(1, 0, 1, pos, "late"), group=True))
    return out


def harnesses(tier):
    cs = cases(tier)
    return [("add", h_add, cs, dict(max_paths=400)),
            ("add.raw", h_add, cs[::41], dict(max_paths=400, raw=True))]
