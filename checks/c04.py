"""C04 -- sampler distribution is normalised, exact and the same for both backends."""
import itertools
from fractions import Fraction

from . import ref

PROPERTY = "C04"
LEVEL = "model_checking"
FUNCTIONS = [
    "lightworks.emulator.backend.slos.SLOS.calculate/a_i_dagger/add_dicts/vector_factorial",
    "lightworks.emulator.backend.backend.Backend.full_probability_distribution (permanent and slos branches)",
    "lightworks.emulator.backend.permanent.Permanent.calculate/partition",
    "lightworks.emulator.simulation.probability_distribution.pdist_calc (State variant)",
    "lightworks.emulator.simulation.sampler.Sampler.probability_distribution", "lightworks.emulator.components.source.Source._build_statistics (ideal source)",
    "compile path of C01",
]
ASSUMPTIONS = [
    "A-REAL (float rounding of sums is outside the claim: the rounding-only trigger of the vacuum overwrite is reached through the truncation route instead); A-LOADER; A-EXT",
    "the 1e-9 per-state threshold is the exact rational 10^-9; every threshold comparison forks and both sides are explored when feasible",
    "thewalrus.perm stubbed by a definitional permanent",
]
BOUNDS = {
    "quick": "(plus univariate shapes - rational beam splitters, one symbolic loss - with 3 photons) U1: SLOS on an arbitrary symbolic 2x2/3x3 matrix, all inputs <=3 photons; U2: both backends on symbolic bs/ps/loss circuits with <=2 real + <=2 loss modes, <=2 photons, every threshold path; U3: pdist_calc with arbitrary symbolic sub-distributions for 1-2 source inputs; U4: Sampler end to end on the U2 shapes plus heralded circuits (incl. inputs whose photons all sit on heralded modes)",
    "thorough": "U1 up to 4x4 / 3 photons; U2 with 3 real modes and 3 photons on the lossless shapes",
}
OUTSIDE = "float rounding; photon numbers above the bound; the clifford backend (not implemented)"
STUBS = ["thewalrus.perm -> definitional permanent", "U3 only: Backend.full_probability_distribution -> arbitrary non-negative symbolic distributions with total <= 1"]

TAU = Fraction(1, 10**9)
# the documented slack is 1e-9 per state: replays and the concrete validation compare at 1e-8
# (float rounding is ~1e-16), not at the generic 1e-6
REPLAY_TOL = 1e-8


# ---------------------------------------------------------------------------
# U1: SLOS kernel on an arbitrary matrix
# ---------------------------------------------------------------------------


def h_slos_kernel(ctx, n, k):
    lw = ctx.lw
    from lightworks.emulator.backend.slos import SLOS
    A = ctx.cmatrix("A", n)
    inp = ctx.choice("input", ref.fock_states(n, k))
    out = SLOS.calculate(A, lw.State(inp))
    basis = ref.fock_states(n, k)
    ctx.check(sorted(list(key) for key in out) == sorted(basis), "slos:keys-are-the-full-fock-basis")
    for o in basis:
        ctx.check_eq(out.get(tuple(o), 0), ref.fock_amp(ctx, A, inp, o), "slos:amplitude-is-fock-amplitude")


# ---------------------------------------------------------------------------
# U2: full_probability_distribution, both backends
# ---------------------------------------------------------------------------

SHAPES = {
    "bs": (2, [("bs", 0, 1, "Rx")]),
    "bs-loss": (2, [("bs", 0, 1, "Rx"), ("loss", 0)]),
    "loss-bs-loss": (2, [("loss", 1), ("bs", 0, 1, "H"), ("loss", 0)]),
    "ps-bs-loss2": (2, [("ps", 0), ("bs", 0, 1, "Rx"), ("loss", 0), ("loss", 1)]),
    "bsloss": (2, [("bsl", 0, 1)]),
    "tri": (3, [("bs", 0, 1, "Rx"), ("bs", 1, 2, "H")]),
    "tri-loss": (3, [("bs", 0, 1, "Rx"), ("loss", 1), ("bs", 1, 2, "Rx")]),
    # one symbolic variable only (rational beam splitters): the threshold comparisons are
    # univariate, so three photons stay cheap - several photons lost at the same element
    "loss1": (2, [("loss", 0)]),
    "bsq-loss": (2, [("bsq", 0, 1, "Rx", (1, 3)), ("loss", 0)]),
    "loss-bsq-loss": (2, [("loss", 1), ("bsq", 0, 1, "H", (2, 5)), ("lossq", 0, (1, 4))]),
    # a partial loss element followed by complete loss (exactly 1) on the same mode: the first loss
    # mode is populated although nothing that enters it ever reaches a visible output
    "loss-then-full-loss": (2, [("loss", 0), ("lossq", 0, (1, 1))]),
    "bsq-loss-full-loss": (2, [("bsq", 0, 1, "Rx", (1, 3)), ("loss", 0), ("lossq", 0, (1, 1)), ("lossq", 1, (1, 1))]),
}
UNIVARIATE = ("loss1", "bsq-loss", "loss-bsq-loss", "loss-then-full-loss", "bsq-loss-full-loss")


def _build(ctx, shape):
    lw = ctx.lw
    n, comps = SHAPES[shape]
    c = lw.Circuit(n)
    for i, cp in enumerate(comps):
        if cp[0] == "bs":
            c.bs(cp[1], cp[2], reflectivity=ctx.real(f"r{i}", 0, 1), convention=cp[3])
        elif cp[0] == "bsl":
            lam = ctx.real(f"l{i}", 0, 1)
            ctx.assume(lam > 0)
            c.bs(cp[1], cp[2], reflectivity=ctx.real(f"r{i}", 0, 1), loss=lam)
        elif cp[0] == "bsq":
            c.bs(cp[1], cp[2], reflectivity=ctx.m.frac(*cp[4]), convention=cp[3])
        elif cp[0] == "lossq":
            c.loss(cp[1], ctx.m.frac(*cp[2]))
        elif cp[0] == "ps":
            c.ps(cp[1], ctx.angle(f"p{i}"))
        else:
            c.loss(cp[1], ctx.real(f"l{i}", 0, 1))
    return c


_TERMS_CACHE = {}


def _exact_terms(ctx, U, n, n_loss, full_in, cache_key=None):
    """{pattern: [ |amp|^2 for every loss configuration ]}"""
    if cache_key is not None and ctx.symbolic and cache_key in _TERMS_CACHE:
        return _TERMS_CACHE[cache_key]
    out = _exact_terms_nc(ctx, U, n, n_loss, full_in)
    if cache_key is not None and ctx.symbolic:
        _TERMS_CACHE[cache_key] = out
    return out


def _exact_terms_nc(ctx, U, n, n_loss, full_in):
    k = sum(full_in)
    out = {}
    for full_out in ref.fock_states(n + n_loss, k):
        a = ref.fock_amp(ctx, U, full_in, full_out)
        t = ctx.m.abs2(a)
        out.setdefault(tuple(full_out[:n]), []).append(t)
    return out


def _gt(ctx, t, tau):
    return bool(t > ctx.m.frac(tau.numerator, tau.denominator))


def check_distribution(ctx, pdist, terms, n, k, label, vacuum_absorbs):
    """pdist (State -> value) against the exact loss-marginalised distribution
    with the documented per-state truncation."""
    lw = ctx.lw
    vac = tuple([0] * n)
    tau = ctx.m.frac(TAU.numerator, TAU.denominator)
    got = {tuple(s.s): v for s, v in pdist.items()}
    ctx.check(all(len(s) == n and sum(s) <= k and min(s) >= 0 for s in got), label + ":patterns-have-at-most-the-injected-photons")
    n_terms = sum(len(v) for v in terms.values())
    total_exact = 0
    total_got = 0
    n_dropped = 0
    for pat, ts in terms.items():
        exact = 0
        kept = 0
        for t in ts:
            exact = exact + t
            if _gt(ctx, t, TAU):
                kept = kept + t
            else:
                n_dropped += 1
        total_exact = total_exact + exact
        if pat == vac:
            continue
        g = got.get(pat, 0)
        total_got = total_got + g
        # reported value = exact probability minus what the documented truncation dropped
        ctx.check_eq(g, kept, label + ":value-is-probability-summed-over-loss-up-to-truncation")
        ctx.check(ctx.ge(g, 0), label + ":non-negative")
        ctx.check(ctx.le(exact - g, len(ts) * tau), label + ":within-truncation-slack-of-exact")
        ctx.check(ctx.le(g, exact), label + ":not-above-exact")
    extra = [p for p in got if p not in terms]
    ctx.check(not extra, label + ":no-pattern-outside-the-fock-space")
    ctx.check_eq(total_exact, 1, label + ":reference-is-normalised")
    gv = got.get(vac, 0)
    exact_vac = sum(terms.get(vac, [0])) if vac in terms else 0
    ctx.check(ctx.ge(gv, 0), label + ":vacuum-non-negative")
    total = total_got + gv
    ctx.check(ctx.le(total, 1), label + ":sum-at-most-one")
    if vacuum_absorbs == "sampler":
        # normalisation and the vacuum entry are properties of the *sampler's* distribution;
        # a backend may leave the vacuum fix-up to pdist_calc
        ctx.check(ctx.le(1 - total, n_terms * tau), label + ":sum-to-one-up-to-truncation")
        # the sampler's distribution holds the full vacuum probability (lost photons)
        ctx.check(ctx.ge(gv, exact_vac - len(terms.get(vac, [])) * tau), label + ":vacuum-holds-all-lost-photon-probability")
        ctx.check(ctx.le(gv, exact_vac + n_terms * tau), label + ":vacuum-not-above-exact-plus-truncated-mass")
    else:
        ctx.check(ctx.le(gv, exact_vac + n_terms * tau), label + ":vacuum-not-above-exact-plus-truncated-mass")
    return got


def h_backend(ctx, shape, k, inp):
    lw = ctx.lw
    c = _build(ctx, shape)
    n = c.n_modes
    cc = c._build()
    U = cc.U_full
    n_loss = cc.loss_modes
    inp = list(inp)
    terms = _exact_terms(ctx, U, n, n_loss, inp + [0] * n_loss, ("b", shape, k, tuple(inp)))
    res = {}
    for b in ("permanent", "slos"):
        pd = lw.emulator.Backend(b).full_probability_distribution(cc, lw.State(inp))
        res[b] = check_distribution(ctx, pd, terms, n, k, b, "backend")
    # the two backends agree on every pattern except possibly the vacuum bookkeeping,
    # which is settled at sampler level (U3/U4)
    vac = tuple([0] * n)
    for pat in set(res["permanent"]) | set(res["slos"]):
        if pat == vac:
            continue
        ctx.check_eq(res["permanent"].get(pat, 0), res["slos"].get(pat, 0), "backends-agree")


def h_sampler(ctx, shape, k, herald, inp):
    lw = ctx.lw
    c = _build(ctx, shape)
    n = c.n_modes
    heralds = {}
    if herald is not None:
        c.herald(herald[0], herald[1], herald[2])
        heralds = {herald[1]: herald[0]}
    cc = c._build()
    U = cc.U_full
    n_loss = cc.loss_modes
    n_in = c.input_modes
    k_user = k - sum(heralds.values())
    if k_user < 0:
        ctx.reached()
        return
    inp = list(inp)
    full_in = ref.insert_heralds(inp, heralds) + [0] * n_loss
    terms = _exact_terms(ctx, U, n, n_loss, full_in, ("s", shape, k, tuple(inp), herald))
    res = {}
    for b in ("permanent", "slos"):
        s = lw.emulator.Sampler(c, lw.State(inp), backend=b)
        pd = s.probability_distribution
        res[b] = check_distribution(ctx, pd, terms, n, k, "sampler:" + b, "sampler")
    for pat in set(res["permanent"]) | set(res["slos"]):
        a, b_ = res["permanent"].get(pat, 0), res["slos"].get(pat, 0)
        n_terms = sum(len(v) for v in terms.values())
        tau = ctx.m.frac(TAU.numerator, TAU.denominator)
        ctx.check(ctx.le(a - b_, n_terms * tau), "sampler:backends-agree-within-truncation")
        ctx.check(ctx.le(b_ - a, n_terms * tau), "sampler:backends-agree-within-truncation")


# ---------------------------------------------------------------------------
# U3: pdist_calc with a stubbed backend
# ---------------------------------------------------------------------------


def h_pdist_calc(ctx, n_inputs, lossy, with_vac, normalised):
    lw = ctx.lw
    from lightworks.emulator.simulation.probability_distribution import pdist_calc
    from lightworks.sdk.circuit.compiler import CompiledCircuit
    states = [(0, 0), (1, 0), (0, 1), (1, 1)] if with_vac else [(1, 0), (0, 1), (1, 1)]
    cc = CompiledCircuit(2)
    if lossy:
        cc._loss_modes = 1
    subs = []
    ws = []
    for i in range(n_inputs):
        d = {}
        tot = 0
        for j, s in enumerate(states):
            v = ctx.real(f"p{i}{j}", 0, 1)
            d[s] = v
            tot = tot + v
        if normalised:
            ctx.assume(tot == 1) if ctx.symbolic else None
            if not ctx.symbolic:
                d = {s: v / tot for s, v in d.items()}
        else:
            if ctx.symbolic:
                ctx.assume(tot <= 1)
            else:
                d = {s: v / max(1.0, tot * 1.1) for s, v in d.items()}
        subs.append(d)
        ws.append(ctx.real(f"w{i}", 0, 1))
    if n_inputs == 1:
        ws = [1]
    else:
        if ctx.symbolic:
            ctx.assume(sum(ws[1:], ws[0]) == 1)
        else:
            t = sum(ws)
            ws = [w / t for w in ws]
    in_states = [lw.State([1, i]) for i in range(n_inputs)]

    class Stub(lw.emulator.Backend):
        def __init__(self):
            super().__init__("permanent")

        def full_probability_distribution(self, circuit, input_state):
            i = in_states.index(input_state)
            return {lw.State(list(s)): v for s, v in subs[i].items()}

    out = pdist_calc(cc, {st: w for st, w in zip(in_states, ws)}, Stub())
    got = {tuple(s.s): v for s, v in out.items()}
    vac = (0, 0)
    total = 0
    mix_total = 0
    for s in set(states) | set(got):
        want = 0
        for i in range(n_inputs):
            want = want + ws[i] * subs[i].get(s, 0)
        mix_total = mix_total + want
        g = got.get(s, 0)
        total = total + g
        if s != vac:
            ctx.check_eq(g, want, "pdist_calc:value-is-weighted-mixture")
        else:
            ctx.check(ctx.ge(g, want), "pdist_calc:vacuum-keeps-its-mixture-weight")
    ctx.check(ctx.ge(total, mix_total), "pdist_calc:no-probability-lost")
    ctx.check(ctx.le(total, 1), "pdist_calc:sum-at-most-one")
    if lossy:
        ctx.check_eq(total, 1, "pdist_calc:normalised-when-loss-modes-exist")


def _n_loss(shape):
    return sum(1 for c in SHAPES[shape][1] if c[0] in ("loss", "lossq")) + 2 * sum(1 for c in SHAPES[shape][1] if c[0] == "bsl")


def _space(n, k):
    import math
    return math.comb(n + k - 1, k)


def xh_conditions(tier):
    # machine-integer behaviour of the factorial normalisation (outside the real-arithmetic model of symx)
    t = 240 if tier == "quick" else 480
    return [dict(name=f"norm.{c}", file="xh/c04_norm.py", func=c, timeout=t, prop="C04") for c in ("_vector_factorial", "_bunched_slos", "_bunched_permanent")]


def harnesses(tier):
    u1 = [dict(n=n, k=k) for n in ((2, 3) if tier == "quick" else (2, 3, 4)) for k in (1, 2, 3)]
    cap = 6 if tier == "quick" else 8
    u2 = []
    for shape, (n, comps) in SHAPES.items():
        for k in (0, 1, 2, 3):
            if _space(n + _n_loss(shape), k) > (cap if shape not in UNIVARIATE else 20):
                continue
            for inp in ref.fock_states(n, k):
                u2.append(dict(shape=shape, k=k, inp=tuple(inp)))
    u4 = []
    for shape in ("bs", "bs-loss", "loss-bs-loss", "bsloss", "tri-loss", "tri", "loss1", "bsq-loss"):
        n = SHAPES[shape][0]
        for k in (0, 1, 2, 3):
            if _space(n + _n_loss(shape), k) > (cap if shape not in UNIVARIATE else 10):
                continue
            for inp in ref.fock_states(n, k):
                u4.append(dict(shape=shape, k=k, herald=None, inp=tuple(inp)))
    for shape, k, herald in (("tri-loss", 2, (1, 2, 0)), ("tri", 2, (0, 1, 1)), ("tri-loss", 1, (0, 0, 2)), ("tri", 3, (1, 0, 2)),
                             # every photon on a heralded mode: the user's input is the vacuum
                             ("tri", 1, (1, 0, 2)), ("tri-loss", 1, (1, 2, 0)), ("tri", 2, (2, 1, 1))):
        n = SHAPES[shape][0]
        if _space(n + _n_loss(shape), k) > cap:
            continue
        for inp in ref.fock_states(n - 1, k - herald[0]):
            u4.append(dict(shape=shape, k=k, herald=herald, inp=tuple(inp)))
    u3 = [dict(n_inputs=ni, lossy=l, with_vac=v, normalised=nm) for ni in (1, 2) for l in (False, True) for v in (False, True) for nm in (False, True)]
    return [
        ("U1.slos-kernel", h_slos_kernel, u1),
        ("U2.backend", h_backend, u2, dict(check_timeout_ms=30000, max_paths=3000, max_seconds=2400)),
        ("U3.pdist_calc", h_pdist_calc, u3),
        ("U4.sampler", h_sampler, u4, dict(check_timeout_ms=30000, max_paths=3000, max_seconds=2400)),
    ]
