"""C11 -- results depend only on the current configuration, not on history."""
import itertools

from . import ref

PROPERTY = "C11"
LEVEL = "model_checking"
FUNCTIONS = [
    "lightworks.emulator.simulation.sampler.Sampler.probability_distribution/_check_parameter_updates/_gen_calculation_values/continuous_distribution/sample/sample_N_outputs and property setters",
    "lightworks.emulator.simulation.quick_sampler.QuickSampler.probability_distribution/_check_parameter_updates/_gen_calculation_values/continuous_distribution/sample/sample_N_outputs",
    "lightworks.emulator.simulation.analyzer.Analyzer.analyze (attributes of the returned result)",
]
ASSUMPTIONS = [
    "A-REAL; A-LOADER; A-EXT; RNG stubs of C07",
    "relational check: after every step the long-lived object is compared with a freshly created object holding the same settings, as symbolic dictionaries, on both sides of every cache-comparison fork (the solver decides old == new and old != new)",
]
BOUNDS = {
    "quick": "Sampler and QuickSampler on 2-3 mode circuits with symbolic reflectivity / parameter values / brightness; every sequence of 2 reconfigurations out of 13 (reassign circuit, reassign circuit with the same unitary but a different herald photon number, move the herald, move only the output herald, edit the circuit in place, set a circuit Parameter v1->v2, change input, brightness old->new, source purity / indistinguishability edited in place (1,1) -> (17/18, 81/100) -> (1, 81/100), backend, post-selection reassigned, post-selection object edited in place, detector mode) with a distribution read in between or not; sampling without a prior read; distribution read again after each sampling method with the probability threshold raised to 1e-3 (reaches the renormalising branch of sample_N_inputs through the sum-to-one contract of Generator.choice); Analyzer with and without expected",
    "thorough": "sequences of 3 reconfigurations starting with a herald move, herald photon change, parameter set or input change",
}
OUTSIDE = "longer histories; purity / indistinguishability values other than the three rational settings of the source-quality reconfiguration (fresh objects: C06)"
STUBS = ["as C07"]

OPS = ["circuit-new", "circuit-same-U-other-herald", "circuit-herald-moved", "circuit-out-herald-moved", "circuit-edit", "param-set", "input", "brightness", "source-quality", "backend", "postselect", "postselect-inplace", "detector-mode"]


def _quality(ctx, k):
    """(purity, indistinguishability) settings the op 'source-quality' cycles through: impure and partly
    distinguishable, then purity back to exactly one with the indistinguishability still below one, ..."""
    f = ctx.m.frac
    return [(1, 1), (f(17, 18), f(81, 100)), (1, f(81, 100)), (f(17, 18), 1)][k % 4]


class _Cfg:
    """the settings a sampler is supposed to reflect"""

    def __init__(self, ctx, kind):
        lw = ctx.lw
        self.ctx = ctx
        self.kind = kind
        self.param = lw.Parameter(ctx.real("v0", 0, 1))
        self.herald_mode = 2
        self.herald_out = None  # output mode of the herald when it differs from the input mode
        self.circuit = self._mk_circuit(self.param, herald_photons=0, extra=[])
        self.herald_photons = 0
        self.extra = []
        self.input = [1, 0]
        self.brightness = 1
        self.quality = 0  # index into QUALITY: (purity, indistinguishability) of the source
        self.backend = "permanent"
        # the quick sampler holds a PostSelection object from the start (empty:
        # accepts everything) so that it can also be edited in place later
        self.postselect = lw.PostSelection() if kind == "quick" else None
        self.ps_assigned = 0
        self.counting = True
        self.n = 0

    def _mk_circuit(self, reflectivity, herald_photons, extra):
        lw = self.ctx.lw
        c = lw.Circuit(3)
        c.bs(0, reflectivity=reflectivity)
        c.bs(1, reflectivity=self.ctx.m.frac(1, 2), convention="H")
        for phi_m, phi in extra:
            c.ps(phi_m, phi)
        if self.herald_out is None:
            c.herald(herald_photons, self.herald_mode)
        else:
            c.herald(herald_photons, self.herald_mode, self.herald_out)
        return c

    def _source(self):
        pur, ind = _quality(self.ctx, self.quality)
        return self.ctx.lw.emulator.Source(brightness=self.brightness, purity=pur, indistinguishability=ind)

    def fresh(self):
        lw = self.ctx.lw
        # a brand new circuit object with the current values (no Parameter objects)
        c = self._mk_circuit(self.param.get(), self.herald_photons, self.extra)
        if self.kind == "sampler":
            return lw.emulator.Sampler(c, lw.State(self.input), source=self._source(), backend=self.backend,
                                       detector=lw.emulator.Detector(photon_counting=self.counting))
        return lw.emulator.QuickSampler(c, lw.State(self.input), photon_counting=self.counting, post_select=self.postselect)

    def make(self):
        lw = self.ctx.lw
        if self.kind == "sampler":
            return lw.emulator.Sampler(self.circuit, lw.State(self.input), source=self._source(), backend=self.backend,
                                       detector=lw.emulator.Detector(photon_counting=self.counting))
        return lw.emulator.QuickSampler(self.circuit, lw.State(self.input), photon_counting=self.counting, post_select=self.postselect)

    def apply(self, obj, op):
        ctx, lw = self.ctx, self.ctx.lw
        self.n += 1
        tag = f"s{self.n}"
        if op == "circuit-new":
            self.param = lw.Parameter(ctx.real(tag + "v", 0, 1))
            self.extra = []
            self.circuit = self._mk_circuit(self.param, self.herald_photons, self.extra)
            obj.circuit = self.circuit
        elif op == "circuit-same-U-other-herald":
            self.herald_photons = 1 - self.herald_photons
            self.circuit = self._mk_circuit(self.param, self.herald_photons, self.extra)
            obj.circuit = self.circuit
        elif op == "circuit-herald-moved":
            self.herald_mode = 0 if self.herald_mode == 2 else 2
            self.herald_out = None
            self.circuit = self._mk_circuit(self.param, self.herald_photons, self.extra)
            obj.circuit = self.circuit
        elif op == "circuit-out-herald-moved":
            # same unitary, same mode count, same input herald: only the output herald mode differs
            cur = self.herald_mode if self.herald_out is None else self.herald_out
            self.herald_out = 0 if cur == 2 else 2
            self.circuit = self._mk_circuit(self.param, self.herald_photons, self.extra)
            obj.circuit = self.circuit
        elif op == "circuit-edit":
            phi = ctx.angle(tag + "phi")
            self.extra = self.extra + [(0, phi)]
            self.circuit.ps(0, phi)
        elif op == "param-set":
            self.param.set(ctx.real(tag + "v", 0, 1))
        elif op == "input":
            self.input = [0, 1] if self.input == [1, 0] else [1, 0]
            obj.input_state = lw.State(self.input)
        elif op == "brightness":
            if self.kind != "sampler":
                return False
            self.brightness = ctx.real(tag + "nu", 0, 1)
            obj.source.brightness = self.brightness
        elif op == "source-quality":
            # in-place edits of the source the sampler already holds, one attribute at a time
            if self.kind != "sampler":
                return False
            self.quality += 1
            pur, ind = _quality(ctx, self.quality)
            obj.source.purity = pur
            obj.source.indistinguishability = ind
        elif op == "backend":
            if self.kind != "sampler":
                return False
            self.backend = "slos" if self.backend == "permanent" else "permanent"
            obj.backend = self.backend
        elif op == "postselect":
            if self.kind == "sampler":
                return False
            ps = lw.PostSelection()
            ps.add(0, 0 if self.ps_assigned % 2 == 0 else 1)
            self.ps_assigned += 1
            self.postselect = ps
            obj.post_select = ps
        elif op == "postselect-inplace":
            # the PostSelection object the sampler already holds gains a rule
            if self.kind == "sampler" or 1 in self.postselect.modes:
                return False
            self.postselect.add(1, 0)
        elif op == "detector-mode":
            self.counting = not self.counting
            if self.kind == "sampler":
                obj.detector.photon_counting = self.counting
            else:
                obj.photon_counting = self.counting
        return True


def _dist(ctx, obj):
    lw = ctx.lw
    try:
        return {tuple(k.s): v for k, v in obj.probability_distribution.items()}, None
    except (ValueError, lw.emulator.EmulatorError, ZeroDivisionError) as e:
        return None, type(e).__name__


def _compare(ctx, cfg, obj, label):
    got, e1 = _dist(ctx, obj)
    want, e2 = _dist(ctx, cfg.fresh())
    if got is None or want is None:
        ctx.check(e1 == e2, label + ":same-outcome-as-fresh-object", {"long-lived": e1, "fresh": e2})
        return
    ctx.check(sorted(got) == sorted(want), label + ":same-support-as-fresh-object")
    for k in set(got) & set(want):
        ctx.check_eq(got[k], want[k], label + ":same-distribution-as-fresh-object")


def _sample_once(ctx, obj, decisions, en):
    """one sample() under the stubs; (state, measure) or the exception name"""
    from .c07 import _world_run
    lw = ctx.lw
    try:
        (st, w) = _world_run(ctx, en, obj.sample, decisions=decisions, run_id=0)
        return tuple(st.s), w.path_measure()
    except (ValueError, lw.emulator.EmulatorError, ZeroDivisionError, AttributeError) as e:
        return type(e).__name__, None


def h_history(ctx, kind, ops, read_between, sample_first=False):
    from symx import stubs
    cfg = _Cfg(ctx, kind)
    obj = cfg.make()
    if sample_first:
        # single-shot sampling before anything else (builds whatever sample() caches)
        _sample_once(ctx, obj, {}, stubs.Enumerator())
    _compare(ctx, cfg, obj, "initial")
    for i, op in enumerate(ops):
        if not cfg.apply(obj, op):
            ctx.reached()
            return
        if read_between or i == len(ops) - 1:
            _compare(ctx, cfg, obj, f"after:{op}")
    # sampling: the long-lived object and a fresh one, fed the same random decisions, must
    # hand the same support/probabilities to the generator and return the same samples
    from .c07 import _world_run
    lw = ctx.lw
    fresh = cfg.fresh()
    if sample_first:
        en = stubs.Enumerator()

        def once_single():
            shared = {}
            return _sample_once(ctx, obj, shared, en), _sample_once(ctx, fresh, shared, en)
        for (s1, m1), (s2, m2) in en.run_all(once_single):
            ctx.check(s1 == s2, f"after:{ops[-1]}:sample-returns-what-a-fresh-object-returns", {"long-lived": str(s1), "fresh": str(s2)})
            if m1 is not None and m2 is not None:
                ctx.check_eq(m1, m2, f"after:{ops[-1]}:sample-draws-with-the-current-probabilities")
    errs = (ValueError, lw.emulator.EmulatorError, lw.emulator.SamplerError, ZeroDivisionError)
    methods = [("sample_N_outputs", lambda o: o.sample_N_outputs(2, seed=1))]
    if kind == "sampler":
        methods.append(("sample_N_inputs", lambda o: o.sample_N_inputs(1, seed=1)))
    for mname, call in methods:
        en = stubs.Enumerator()

        def once():
            shared = {}
            out = []
            for rid, o in ((1, obj), (2, fresh)):
                try:
                    (res, w) = _world_run(ctx, en, lambda: call(o), decisions=shared, run_id=rid)
                    out.append((sorted((tuple(k.s), v) for k, v in res.items()), w.choice_calls))
                except errs as e:
                    out.append((type(e).__name__, None))
            return out
        for (r1, c1), (r2, c2) in en.run_all(once):
            ctx.check(r1 == r2, f"after:{ops[-1]}:{mname}-returns-what-a-fresh-object-returns", {"long-lived": str(r1)[:80], "fresh": str(r2)[:80]})
            if c1 and c2:
                v1, p1, _ = c1[0]
                v2, p2, _ = c2[0]
                ctx.check([v.s for v in v1] == [v.s for v in v2], f"after:{ops[-1]}:{mname}-draws-from-the-current-support")
                if len(p1) == len(p2):
                    ctx.check_eq(list(p1), list(p2), f"after:{ops[-1]}:{mname}-draws-with-the-current-probabilities")


def h_sample_without_read(ctx, kind, op):
    """sample() must work on an object whose distribution was never read, also right after a change"""
    from symx import stubs
    from .c07 import _world_run
    lw = ctx.lw
    cfg = _Cfg(ctx, kind)
    obj = cfg.make()
    if op is not None:
        obj.probability_distribution
        if not cfg.apply(obj, op):
            ctx.reached()
            return
    en = stubs.Enumerator()

    def once():
        (st, w) = _world_run(ctx, en, obj.sample)
        return tuple(st.s), w.path_measure()
    try:
        runs = en.run_all(once)
    except AttributeError as e:
        ctx.fail(f"{kind}:sample-works-without-reading-the-distribution-first", repr(e)[:120])
        return
    except (ValueError, lw.emulator.EmulatorError, ZeroDivisionError):
        ctx.reached()
        return
    law = {}
    for o, m in runs:
        law[o] = law[o] + m if o in law else m
    want, err = _dist(ctx, cfg.fresh())
    if want is None:
        ctx.reached()
        return
    tot = 0
    for v in want.values():
        tot = tot + v
    if kind == "quick":
        for k, v in want.items():
            ctx.check_eq(law.get(k, 0) * tot, v, f"{kind}:sample-draws-from-the-current-distribution")
    else:
        ctx.check(True, f"{kind}:sample-works-without-reading-the-distribution-first")
        for k, v in want.items():
            ctx.check_eq(law.get(k, 0) * tot, v, f"{kind}:sample-draws-from-the-current-distribution")


def h_read_after_sampling(ctx, kind, method):
    """a sampling call is not a reconfiguration: what the object reports afterwards is still what a
    fresh object reports.  The probability threshold (a public setting) is raised to 1e-3 so that one
    dropped output already leaves the stored distribution short of one by more than the tolerance of
    numpy's Generator.choice, which is what sends sample_N_inputs into its renormalising except-branch."""
    from symx import stubs
    from .c07 import _world_run
    lw = ctx.lw
    old = lw.settings.sampler_probability_threshold
    lw.settings.sampler_probability_threshold = ctx.m.frac(1, 1000)
    try:
        r = ctx.real("r", 0, 1)
        c = lw.Circuit(2)
        c.bs(0, reflectivity=r)

        def mk():
            if kind == "sampler":
                return lw.emulator.Sampler(c, lw.State([1, 0]))
            return lw.emulator.QuickSampler(c, lw.State([1, 0]))
        obj = mk()
        before, e0 = _dist(ctx, obj)
        if before is None:
            ctx.reached()
            return
        calls = {"sample_N_inputs": lambda: obj.sample_N_inputs(1, seed=3), "sample_N_outputs": lambda: obj.sample_N_outputs(1, seed=3),
                 "sample": obj.sample}
        en = stubs.Enumerator()

        def once():
            try:
                _world_run(ctx, en, calls[method])
            except (ValueError, lw.emulator.EmulatorError, ZeroDivisionError):
                pass
            return 0
        en.run_all(once)
        after, e1 = _dist(ctx, obj)
        fresh, e2 = _dist(ctx, mk())
        label = f"read-after-{method}:{kind}"
        if after is None or fresh is None:
            ctx.check(e1 == e2, label + ":same-outcome-as-fresh-object", {"long-lived": e1, "fresh": e2})
            return
        ctx.check(sorted(after) == sorted(fresh), label + ":same-support-as-fresh-object")
        for k in set(after) & set(fresh):
            ctx.check_eq(after[k], fresh[k], label + ":same-distribution-as-fresh-object")
        for k in set(after) & set(before):
            ctx.check_eq(after[k], before[k], label + ":same-distribution-as-before-the-sampling-call")
    finally:
        lw.settings.sampler_probability_threshold = old


def h_analyzer(ctx, first_expected, second_expected):
    lw = ctx.lw
    c = lw.Circuit(2)
    c.bs(0, reflectivity=ctx.real("r", 0, 1))
    an = lw.emulator.Analyzer(c)
    inp = lw.State([1, 0])
    exp = {inp: lw.State([0, 1])}
    try:
        r1 = an.analyze(inp, exp if first_expected else None)
        r2 = an.analyze(inp, exp if second_expected else None)
    except ZeroDivisionError:
        ctx.reached()
        return
    ctx.check(hasattr(r1, "error_rate") == first_expected, "analyzer:result-carries-error-rate-only-if-expected-was-passed")
    ctx.check(hasattr(r2, "error_rate") == second_expected, "analyzer:result-carries-error-rate-only-if-expected-was-passed")
    ctx.check(hasattr(r2, "performance"), "analyzer:performance-present")


AN_OPS = ["circuit-other-herald-mode", "circuit-other-herald-photons", "loss-added-in-place", "component-added-in-place",
          "postselect-reassigned", "postselect-inplace", "param-set"]


def h_analyzer_history(ctx, ops):
    """a long-lived Analyzer gives, after any reconfiguration, what a fresh Analyzer on the
    current circuit with the current post-selection gives"""
    lw = ctx.lw
    f = ctx.m.frac
    par = lw.Parameter(ctx.real("v0", 0, 1))
    state = {"hmode": 2, "hphot": 0, "loss": [], "extra": 0, "ps_rules": [], "par": par}

    def mk(param):
        c = lw.Circuit(3)
        c.bs(0, reflectivity=param)
        c.bs(1, reflectivity=f(1, 2), convention="H")
        for _ in range(state["extra"]):
            c.bs(0, reflectivity=f(1, 3))
        for lam in state["loss"]:
            c.loss(0, lam)
        c.herald(state["hphot"], state["hmode"], 2 - state["hmode"] if state["hmode"] != 2 else 2)
        return c

    def mk_ps():
        ps = lw.PostSelection()
        for (m, n) in state["ps_rules"]:
            ps.add(m, n)
        return ps
    circ = mk(par)
    ps = mk_ps()
    an = lw.emulator.Analyzer(circ)
    an.post_selection = ps
    inp = lw.State([1, 0])

    def run(a):
        try:
            r = a.analyze(inp)
        except (ValueError, ZeroDivisionError, lw.emulator.EmulatorError) as e:
            return type(e).__name__
        return r

    def compare(label):
        fresh = lw.emulator.Analyzer(mk(state["par"].get()))
        fresh.post_selection = mk_ps()
        r1, r2 = run(an), run(fresh)
        if isinstance(r1, str) or isinstance(r2, str):
            ctx.check(isinstance(r1, str) and isinstance(r2, str) and r1 == r2, label + ":same-outcome-as-fresh-analyzer", {"long-lived": str(r1)[:40], "fresh": str(r2)[:40]})
            return
        o1 = [tuple(o.s) for o in r1.outputs]
        o2 = [tuple(o.s) for o in r2.outputs]
        ctx.check(sorted(o1) == sorted(o2), label + ":same-outputs-as-fresh-analyzer", {"long-lived": str(o1)[:60], "fresh": str(o2)[:60]})
        for j, o in enumerate(o1):
            if o in o2:
                ctx.check_eq(r1.array[0, j], r2.array[0, o2.index(o)], label + ":same-probabilities-as-fresh-analyzer")
        ctx.check_eq(r1.performance, r2.performance, label + ":same-performance-as-fresh-analyzer")
    compare("initial")
    for i, op in enumerate(ops):
        if op == "circuit-other-herald-mode":
            state["hmode"] = 0 if state["hmode"] == 2 else 2
            circ = mk(state["par"])
            an.circuit = circ
        elif op == "circuit-other-herald-photons":
            state["hphot"] = 1 - state["hphot"]
            circ = mk(state["par"])
            an.circuit = circ
        elif op == "loss-added-in-place":
            lam = ctx.real(f"lam{i}", 0, 1)
            ctx.assume(lam > 0)
            state["loss"] = state["loss"] + [lam]
            circ.loss(0, lam)
        elif op == "component-added-in-place":
            if state["loss"]:
                ctx.reached()
                return  # the reference builder places extra components before the loss elements
            state["extra"] += 1
            circ.bs(0, reflectivity=f(1, 3))
        elif op == "postselect-reassigned":
            state["ps_rules"] = [(0, (0, 1))] if not state["ps_rules"] else [(1, 0)]
            ps = mk_ps()
            an.post_selection = ps
        elif op == "postselect-inplace":
            rule = (1, (0, 1)) if not any(m == 1 for m, _ in state["ps_rules"]) else None
            if rule is None:
                ctx.reached()
                return
            state["ps_rules"] = state["ps_rules"] + [rule]
            ps.add(*rule)
        elif op == "param-set":
            state["par"].set(ctx.real(f"v{i + 1}", 0, 1))
        compare(f"after:{op}")


def h_size_change(ctx, kind, read_first, method):
    """the circuit is replaced by one with the same full unitary and heralds but another
    number of modes (a loss mode became a real mode): the input no longer fits, and the
    long-lived object must say so exactly as an object without the earlier read does"""
    lw = ctx.lw
    f = ctx.m.frac
    A = lw.Circuit(2)
    A.bs(0, reflectivity=f(1, 3))
    A.loss(0, f(1, 2))
    B = lw.Unitary(A.U_full)
    cls = lw.emulator.Sampler if kind == "sampler" else lw.emulator.QuickSampler
    obj = cls(A, lw.State([1, 0]))
    if read_first:
        obj.probability_distribution
    obj.circuit = B

    def outcome(o):
        try:
            if method == "read":
                return {tuple(k.s): v for k, v in o.probability_distribution.items()}
            return sorted((tuple(k.s), v) for k, v in o.sample_N_outputs(2, seed=3).items())
        except Exception as e:  # noqa: BLE001
            return "error"
    got = outcome(obj)
    ref_obj = cls(A, lw.State([1, 0]))
    ref_obj.circuit = B  # same assignments, no earlier read
    want = outcome(ref_obj)
    ctx.check((got == "error") == (want == "error"), f"{kind}:{method}:same-outcome-with-and-without-an-earlier-read", {"with-read": str(got)[:60], "without": str(want)[:60]})


def harnesses(tier):
    L = 2 if tier == "quick" else 3
    hist = []
    for kind in ("sampler", "quick"):
        avail = [o for o in OPS if not (kind == "sampler" and o in ("postselect", "postselect-inplace")) and not (kind == "quick" and o in ("brightness", "source-quality", "backend"))]
        firsts = avail if L == 2 else ["circuit-herald-moved", "circuit-same-U-other-herald", "param-set", "input"]
        for ops in itertools.product(avail, repeat=L):
            if ops[0] not in firsts:
                continue
            if L == 3 and ops[0] == ops[1] == ops[2]:
                continue
            for rb in ((True, False) if L == 2 else (True,)):
                hist.append(dict(kind=kind, ops=list(ops), read_between=rb))
        for o in avail:
            hist.append(dict(kind=kind, ops=[o], read_between=True))
            hist.append(dict(kind=kind, ops=[o], read_between=True, sample_first=True))
        for o1 in ("input", "param-set", "circuit-herald-moved", "brightness" if kind == "sampler" else "postselect"):
            for o2 in ("detector-mode", "input"):
                hist.append(dict(kind=kind, ops=[o1, o2], read_between=True, sample_first=True))
    swr = [dict(kind=k, op=o) for k in ("sampler", "quick") for o in (None, "param-set", "input", "circuit-edit", "detector-mode")]
    return [
        ("history", h_history, hist, dict(max_paths=4000, max_seconds=1500)),
        ("sample-without-read", h_sample_without_read, swr),
        ("analyzer", h_analyzer, [dict(first_expected=a, second_expected=b) for a in (True, False) for b in (True, False)]),
        ("size-change", h_size_change, [dict(kind=k, read_first=r, method=m) for k in ("sampler", "quick") for r in (True, False) for m in ("read", "sample")]),
        ("read-after-sampling", h_read_after_sampling, [dict(kind="sampler", method=m) for m in ("sample_N_inputs", "sample_N_outputs", "sample")]
         + [dict(kind="quick", method=m) for m in ("sample_N_outputs", "sample")]),
        ("analyzer-history", h_analyzer_history, [dict(ops=[a]) for a in AN_OPS] + [dict(ops=[a, b]) for a in AN_OPS for b in AN_OPS if a != b or a == "loss-added-in-place"]),
    ]
