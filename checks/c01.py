"""C01 -- a circuit compiles to the ordered product of its components."""
import itertools

from . import ref

PROPERTY = "C01"
LEVEL = "model_checking"
FUNCTIONS = [
    "lightworks.sdk.circuit.compiler.CompiledCircuit.add",
    "lightworks.sdk.circuit.components.BeamSplitter.get_unitary/validate",
    "lightworks.sdk.circuit.components.PhaseShifter.get_unitary",
    "lightworks.sdk.circuit.components.Loss.get_unitary/validate",
    "lightworks.sdk.circuit.components.ModeSwaps.get_unitary/__post_init__",
    "lightworks.sdk.circuit.components.UnitaryMatrix.get_unitary/__post_init__",
    "lightworks.sdk.circuit.components.Barrier.get_unitary",
    "lightworks.sdk.utils.permutation_conversion.permutation_mat_from_swaps_dict",
    "lightworks.sdk.utils.matrix_utils.check_unitary",
    "lightworks.sdk.circuit.circuit.Circuit.bs/ps/loss/mode_swaps/barrier/add/_build_process/_map_mode/U/U_full",
    "lightworks.sdk.circuit.circuit_utils.check_loss",
]
ASSUMPTIONS = [
    "A-REAL: float arithmetic modelled as exact real arithmetic; tolerances are exact rationals",
    "A-EXT: numpy structural operations on object arrays trusted",
    "A-LOADER: the AST rewrites (** -> exact pow, / -> exact div, import redirection, isinstance) preserve semantics",
    "induction over program length (U is a left fold of CompiledCircuit.add) is stated, not discharged by the solver",
]
BOUNDS = {
    "quick": "H1: n<=3 real modes, <=1 earlier loss mode, arbitrary symbolic accumulated matrix; H2: programs of 2 public calls on Circuit(n<=3), incl. parent with a heralded sub-circuit; H3: one call with unconstrained real parameter; H4: bs/ps/loss with the loss given as a plain value or a Parameter (incl. value 0)",
    "thorough": "H1: n<=4, <=2 earlier loss modes; H2: programs of 3 calls on Circuit(n<=3) and 2 calls on Circuit(4)",
}
OUTSIDE = "float rounding; mode counts above the bound; program length beyond the bound except through the stated induction; check_unitary tolerance treated as exact 1e-10"
STUBS = []


def _swap_dicts(n):
    out = []
    for p in itertools.permutations(range(n)):
        moved = {i: p[i] for i in range(n) if p[i] != i}
        if moved:
            out.append(moved)
    out.append({i: i for i in range(n)})  # complete dictionary with fixed points only
    out.append({})
    # one dictionary that lists a fixed point besides moved modes
    if n >= 3:
        out.append({0: 1, 1: 0, 2: 2})
    return out


# ---------------------------------------------------------------------------
# H1: one inductive step of CompiledCircuit.add from an arbitrary pre-state
# ---------------------------------------------------------------------------


def h1_step(ctx, n, l, kind, args):
    lw = ctx.lw
    from lightworks.sdk.circuit import compiler, components as comp
    k = n + l
    M = ctx.cmatrix("M", k)
    cc = compiler.CompiledCircuit(n)
    cc._unitary = M.copy()
    cc._loss_modes = l
    m = ctx.m
    if kind == "bs":
        m1, m2, conv = args
        r = ctx.real("r", 0, 1)
        spec = comp.BeamSplitter(m1, m2, r, conv)
        E = ref.embed_bs(ctx, k, m1, m2, r, conv)
    elif kind == "ps":
        (m1,) = args
        phi = ctx.angle("phi")
        spec = comp.PhaseShifter(m1, phi)
        E = ref.embed_ps(ctx, k, m1, phi)
    elif kind == "loss":
        (m1,) = args
        lam = ctx.real("lam", 0, 1)
        spec = comp.Loss(m1, lam)
        E = ref.embed_loss_block(ctx, k, m1, lam)
    elif kind == "swaps":
        (sw,) = args
        sw = {int(a): int(b) for a, b in sw}
        spec = comp.ModeSwaps(dict(sw))
        E = ref.embed_swaps(ctx, k, sw)
    elif kind == "unitary":
        off, size = args
        A = ctx.cmatrix("A", size)
        try:
            spec = comp.UnitaryMatrix(off, A, "U")
        except ValueError:
            # the block failed the library's unitarity test: rejection is fine
            ctx.reached()
            return
        E = ref.embed_block(ctx, k, off, A)
    elif kind == "barrier":
        (modes,) = args
        spec = comp.Barrier(list(modes))
        E = ref.eye(ctx, k)
    elif kind == "group":
        m1, m2, mp = args
        r = ctx.real("r", 0, 1)
        phi = ctx.angle("phi")
        spec = comp.Group([comp.BeamSplitter(m1, m2, r, "Rx"), comp.PhaseShifter(mp, phi)], "g", 0, n - 1, {"input": {}, "output": {}})
        E = ref.matmul(ctx, ref.embed_ps(ctx, k, mp, phi), ref.embed_bs(ctx, k, m1, m2, r, "Rx"))
    else:
        raise AssertionError(kind)
    cc.add(spec)
    R = cc.U_full
    want = ref.matmul(ctx, E, M)
    if kind == "loss":
        ctx.check(R.shape == (k + 1, k + 1), "loss:shape-one-extra-mode")
        ctx.check(cc.loss_modes == l + 1, "loss:loss-mode-count")
        ctx.check_eq(R[:k, :k], want, "loss:step-product-leading-block")
        # the new mode must be decoupled from all *other* real/loss modes' own rows: the
        # new column couples only to the lossy mode (a photon that is lost stays lost)
        for i in range(k):
            if i != m1:
                ctx.check_eq(R[i, k], 0, "loss:new-column-couples-only-to-lossy-mode")
    else:
        ctx.check(R.shape == (k, k), f"{kind}:shape")
        ctx.check(cc.loss_modes == l, f"{kind}:loss-mode-count")
        ctx.check_eq(R, want, f"{kind}:step-product")


def h1_cases(tier):
    out = []
    ns = [2, 3] if tier == "quick" else [2, 3, 4]
    ls = [0, 1] if tier == "quick" else [0, 1, 2]
    for n in ns:
        for l in ls:
            for m1, m2 in itertools.permutations(range(n), 2):
                for conv in ("Rx", "H"):
                    out.append(dict(n=n, l=l, kind="bs", args=(m1, m2, conv)))
            for m1 in range(n):
                out.append(dict(n=n, l=l, kind="ps", args=(m1,)))
                out.append(dict(n=n, l=l, kind="loss", args=(m1,)))
            for sw in _swap_dicts(n):
                out.append(dict(n=n, l=l, kind="swaps", args=(tuple(sorted(sw.items())),)))
            for size in range(1, n + 1):
                if size > 2 and (tier == "quick" or l > 0 or n > 3):
                    continue
                for off in range(0, n - size + 1):
                    out.append(dict(n=n, l=l, kind="unitary", args=(off, size)))
            out.append(dict(n=n, l=l, kind="barrier", args=(tuple(range(n)),)))
            out.append(dict(n=n, l=l, kind="barrier", args=((0,),)))
            out.append(dict(n=n, l=l, kind="group", args=(0, n - 1, n - 1)))
    return out


# ---------------------------------------------------------------------------
# H1u: every embedding produced by get_unitary is unitary
# ---------------------------------------------------------------------------


def h1u_unitary(ctx, N, kind, args):
    from lightworks.sdk.circuit import components as comp
    if kind == "bs":
        m1, m2, conv = args
        spec = comp.BeamSplitter(m1, m2, ctx.real("r", 0, 1), conv)
    elif kind == "ps":
        spec = comp.PhaseShifter(args[0], ctx.angle("phi"))
    elif kind == "loss":
        spec = comp.Loss(args[0], ctx.real("lam", 0, 1))
    elif kind == "swaps":
        spec = comp.ModeSwaps({int(a): int(b) for a, b in args[0]})
    elif kind == "unitary":
        A = ctx.unitary2("A")
        spec = comp.UnitaryMatrix(args[0], A, "U")
    E = spec.get_unitary(N)
    P, I = ref.is_unitary_residuals(ctx, E)
    ctx.check_eq(P, I, f"{kind}:embedding-unitary")


def h1u_cases(tier):
    out = []
    for N in ([2, 3] if tier == "quick" else [2, 3, 4]):
        for m1, m2 in itertools.permutations(range(N), 2):
            for conv in ("Rx", "H"):
                out.append(dict(N=N, kind="bs", args=(m1, m2, conv)))
        for m1 in range(N):
            out.append(dict(N=N, kind="ps", args=(m1,)))
        for m1 in range(N - 1):
            out.append(dict(N=N, kind="loss", args=(m1,)))
        for sw in _swap_dicts(N):
            out.append(dict(N=N, kind="swaps", args=(tuple(sorted(sw.items())),)))
        for off in range(N - 1):
            out.append(dict(N=N, kind="unitary", args=(off,)))
    return out


# ---------------------------------------------------------------------------
# H2: programs of public calls; U, U_full, shapes, unitarity
# ---------------------------------------------------------------------------

CALL_KINDS = ["bsRx", "bsH", "ps", "loss", "swaps", "barrier", "unitary", "bs+loss", "ps+loss"]


def _mk_parent(ctx, n, with_ancilla):
    """Circuit(n) optionally already containing a heralded 2-mode sub-circuit
    whose ancilla sits at a chosen position; returns (circuit, reference full
    matrix so far, herald modes)."""
    lw = ctx.lw
    c = lw.Circuit(n)
    if not with_ancilla:
        return c, ref.eye(ctx, n), set()
    A = ctx.unitary2("S")
    sub = lw.Unitary(A)
    hm = ctx.choice("sub-herald-mode", [0, 1])
    sub.herald(0, hm)
    at = ctx.choice("sub-position", list(range(n)))
    c.add(sub, at)
    full = n + 1
    anc = at + hm  # full-mode index of the new ancilla
    other = at + (1 - hm)
    Ufull = ref.eye(ctx, full)
    idx = {0: anc if hm == 0 else other, 1: anc if hm == 1 else other}
    for i in range(2):
        for j in range(2):
            Ufull[idx[i], idx[j]] = A[i, j]
    return c, Ufull, {anc}


def h2_program(ctx, n, first, length, with_ancilla):
    lw = ctx.lw
    c, Uref, heralds = _mk_parent(ctx, n, with_ancilla)
    n_full = n + len(heralds)
    u2f = ref.user_to_full(n_full, heralds)
    n_loss = 0
    has_block = with_ancilla

    def grow():
        nonlocal Uref
        Uref = ref.pad_identity(ctx, Uref, 1)

    def apply(E):
        nonlocal Uref
        Uref = ref.matmul(ctx, E, Uref)

    def loss_block(mode_full, lam):
        # reference dilation for the *real-mode block* only (see DESIGN): we keep the
        # documented amplitude factor on the mode and check the rest via unitarity
        nonlocal n_loss, Uref
        N = Uref.shape[0]
        apply(ref.embed_loss_block(ctx, N, mode_full, lam))
        n_loss += 1

    for step in range(length):
        kind = first if step == 0 else ctx.choice(f"kind{step}", CALL_KINDS)
        tag = f"s{step}"
        N = n_full  # reference tracks only the n_full x n_full real block
        try:
            if kind in ("bsRx", "bsH", "bs+loss"):
                pairs = list(itertools.permutations(range(n), 2))
                m1, m2 = ctx.choice(tag + "modes", pairs)
                r = ctx.real(tag + "r", 0, 1)
                conv = "H" if kind == "bsH" else "Rx"
                if kind == "bs+loss":
                    lam = ctx.real(tag + "lam", 0, 1)
                    c.bs(m1, m2, reflectivity=r, loss=lam, convention=conv)
                    apply(ref.embed_bs(ctx, N, u2f[m1], u2f[m2], r, conv))
                    # loss value 0 adds no loss element (documented: only if loss > 0)
                    if ctx.symbolic:
                        pos = bool(lam > 0)
                    else:
                        pos = lam > 0
                    if pos:
                        loss_block(u2f[m1], lam)
                        loss_block(u2f[m2], lam)
                else:
                    c.bs(m1, m2, reflectivity=r, convention=conv)
                    apply(ref.embed_bs(ctx, N, u2f[m1], u2f[m2], r, conv))
            elif kind in ("ps", "ps+loss"):
                m1 = ctx.choice(tag + "mode", list(range(n)))
                phi = ctx.angle(tag + "phi")
                if kind == "ps+loss":
                    lam = ctx.real(tag + "lam", 0, 1)
                    c.ps(m1, phi, loss=lam)
                    apply(ref.embed_ps(ctx, N, u2f[m1], phi))
                    pos = bool(lam > 0)
                    if pos:
                        loss_block(u2f[m1], lam)
                else:
                    c.ps(m1, phi)
                    apply(ref.embed_ps(ctx, N, u2f[m1], phi))
            elif kind == "loss":
                m1 = ctx.choice(tag + "mode", list(range(n)))
                lam = ctx.real(tag + "lam", 0, 1)
                c.loss(m1, lam)
                loss_block(u2f[m1], lam)
            elif kind == "swaps":
                sw = ctx.choice(tag + "swaps", _swap_dicts(n))
                given = dict(sw)
                c.mode_swaps(given)
                # the component is the swap as it was when it was added: what the caller does with
                # the dictionary afterwards is not part of the circuit
                given.clear()
                apply(ref.embed_swaps(ctx, N, {u2f[a]: u2f[b] for a, b in sw.items()}))
            elif kind == "barrier":
                which = ctx.choice(tag + "barrier", ["all", "one"])
                if which == "all":
                    c.barrier()
                else:
                    c.barrier([n - 1])
            elif kind == "unitary":
                if with_ancilla:
                    # a block spanning an ancilla is C02 territory; place it only where the
                    # two user modes are adjacent in the full numbering
                    offs = [o for o in range(n - 1) if u2f[o + 1] == u2f[o] + 1]
                else:
                    offs = list(range(n - 1))
                if not offs:
                    continue
                off = ctx.choice(tag + "off", offs)
                A = ctx.unitary2(tag + "A")
                c.add(lw.Unitary(A), off)
                apply(ref.embed_block(ctx, N, u2f[off], A))
                has_block = True
        except (ValueError, TypeError, lw.ModeRangeError) as e:
            ctx.fail(f"{kind}:in-range-call-raised", repr(e)[:200])
            return
    try:
        U = c.U
        Ufull = c.U_full
    except lw.CircuitCompilationError as e:
        ctx.fail(f"{first}:compile-raised", repr(e)[:200])
        return
    ctx.check(Ufull.shape == (n_full + n_loss, n_full + n_loss), "U_full:one-extra-mode-per-loss-element")
    ctx.check(U.shape == (n_full, n_full), "U:shape")
    ctx.check_eq(U, Ufull[:n_full, :n_full], "U:is-leading-block-of-U_full")
    ctx.check_eq(U, Uref, "U:ordered-product-of-documented-embeddings")
    P, I = ref.is_unitary_residuals(ctx, Ufull)
    ctx.check_eq(P, I, "U_full:unitary")


def h2_cases(tier):
    out = []
    for n in (2, 3):
        for first in CALL_KINDS:
            out.append(dict(n=n, first=first, length=2, with_ancilla=False))
            out.append(dict(n=n, first=first, length=2 if tier == "quick" else 2, with_ancilla=True))
            if tier != "quick":
                out.append(dict(n=n, first=first, length=3, with_ancilla=False))
    return out


# ---------------------------------------------------------------------------
# H3: range validation with unconstrained parameters
# ---------------------------------------------------------------------------


def h3_ranges(ctx, n, kind):
    lw = ctx.lw
    c = lw.Circuit(n)
    c.ps(0, ctx.angle("p0"))
    before = repr(c._get_circuit_spec())
    x = ctx.real("x")
    raised = None
    try:
        if kind == "bs.reflectivity":
            c.bs(0, 1, reflectivity=x)
        elif kind == "bs.loss":
            c.bs(0, 1, loss=x)
        elif kind == "ps.loss":
            c.ps(0, ctx.angle("p1"), loss=x)
        elif kind == "loss.loss":
            c.loss(0, x)
    except ValueError as e:
        raised = e
    in_range = (x >= 0) & (x <= 1) if ctx.symbolic else (0 <= x <= 1)
    if raised is None:
        ctx.check(in_range, f"{kind}:accepted-only-in-range")
        try:
            U = c.U_full
            P, I = ref.is_unitary_residuals(ctx, U)
            ctx.check_eq(P, I, f"{kind}:accepted-value-compiles-to-unitary")
        except lw.CircuitCompilationError as e:
            ctx.fail(f"{kind}:accepted-value-fails-to-compile", repr(e)[:200])
    else:
        if ctx.symbolic:
            ctx.check(~in_range if not isinstance(in_range, bool) else (not in_range), f"{kind}:rejected-only-out-of-range")
        else:
            ctx.check(not in_range, f"{kind}:rejected-only-out-of-range")
        ctx.check(repr(c._get_circuit_spec()) == before, f"{kind}:rejected-call-leaves-spec-unchanged")


def h3_cases(tier):
    return [dict(n=2, kind=k) for k in ("bs.reflectivity", "bs.loss", "ps.loss", "loss.loss")]


def h4_loss_modes(ctx, via, kind):
    """U_full has exactly one extra mode per loss element, also when the loss is given as
    a Parameter whose value is 0 when the component is added (a plain 0 adds none)"""
    lw = ctx.lw
    r = ctx.real("r", 0, 1)
    lam = ctx.real("lam", 0, 1)
    ctx.assume(lam > 0)
    loss = {"param0": lw.Parameter(0), "param": lw.Parameter(lam), "plain": lam, "plain0": 0}[kind]
    c = lw.Circuit(2)
    if via == "bs":
        c.bs(0, reflectivity=r, loss=loss)
        n_el = 2
    elif via == "ps":
        c.ps(1, ctx.angle("phi"), loss=loss)
        n_el = 1
    else:
        c.loss(0, loss)
        n_el = 1
    if kind == "plain0" and via != "loss":
        n_el = 0
    ctx.check(c.U_full.shape == (2 + n_el, 2 + n_el), f"{via}:{kind}:one-extra-mode-per-loss-element")
    if kind == "param0":
        loss.set(lam)
        refc = lw.Circuit(2)
        if via == "bs":
            refc.bs(0, reflectivity=r, loss=lam)
        elif via == "ps":
            refc.ps(1, ctx.angle("phi"), loss=lam)
        else:
            refc.loss(0, lam)
        ctx.check_eq(c.U, refc.U, f"{via}:{kind}:U-carries-the-amplitude-factor-of-the-current-loss")


def harnesses(tier):
    return [
        ("H4.loss-modes", h4_loss_modes, [dict(via=v, kind=k) for v in ("bs", "ps", "loss") for k in ("param0", "param", "plain", "plain0")]),
        ("H1.step", h1_step, h1_cases(tier)),
        ("H1u.unitary", h1u_unitary, h1u_cases(tier)),
        ("H2.program", h2_program, h2_cases(tier), dict(max_paths=60000, max_seconds=3000)),
        ("H3.ranges", h3_ranges, h3_cases(tier)),
        # the same identities once more with z3 deciding the un-normalised expressions
        ("H1u.unitary.raw", h1u_unitary, h1u_cases(tier), dict(raw=True)),
        ("H1.step.raw", h1_step, [c for c in h1_cases(tier) if c["n"] == 2 or tier != "quick"], dict(raw=True)),
    ]
