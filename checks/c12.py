"""C12 -- qiskit conversion preserves the circuit's unitary, or refuses."""
import itertools
import math

import numpy as _np

from . import ref
from .c13 import gate_matrix, dual_rail, bits

PROPERTY = "C12"
LEVEL = "model_checking"
FUNCTIONS = [
    "lightworks.qubit.converter.qiskit_convert.qiskit_converter/QiskitConverter.convert/_add_single_qubit_gate/_add_single_qubit_rotation_gate/_add_two_qubit_gate/_add_three_qubit_gate",
    "lightworks.qubit.converter.qiskit_convert.convert_two_qubits_to_adjacent/post_selection_analyzer",
    "lightworks.qubit.gates.* constructors; lightworks.sdk.circuit.circuit.Circuit.add (nested heralded groups)",
]
ASSUMPTIONS = [
    "A-REAL; A-LOADER; A-EXT; qiskit QuantumCircuit objects are built concretely (qiskit's Rust core copies float parameters), rotation angles enter as floats and are abstracted to trigonometric atoms keyed by their value: the obligations then hold for every (cos, sin) pair, i.e. every angle",
    "the reference unitary is built gate by gate on bit tuples from textbook matrices and is validated numerically against qiskit.quantum_info.Operator in every concrete validation run",
    "'one common non-zero scalar' is stated division-free: accepted amplitudes are pairwise proportional to the reference entries, vanish outside the qubit subspace for qubits without a post-selection rule, and their squared norm is non-zero",
]
BOUNDS = {
    "quick": "2 qubits: every ordered pair of operations with at least one multi-qubit gate (cx/cz in both orientations, swap) plus single-gate programs, both values of allow_post_selection; 3 qubits: pairs of multi-qubit gates (incl. non-adjacent cx/cz, ccx/ccz in all target positions) and triples entangling-swap-entangling with allow_post_selection=True; 2-3 qubits: single multi-qubit gates on circuits made of 2-3 quantum registers; 4 qubits: cx/cz on qubits up to three apart in both orientations (post-selection allowed); programs whose converted circuit carries more than 4 photons are outside the bound",
    "thorough": "programs of length 3 on 2 qubits, photon bound 5",
}
OUTSIDE = "programs above the photon bound (heralded-only conversions of several entangling gates): covered only through C02 (wiring), C13 (each gate) and the stated composition lemma (a heralded gate that is exact and leak-free on the qubit subspace composes multiplicatively); more than 3 qubits"
STUBS = []

SINGLE = ["h", "x", "y", "z", "s", "sdg", "t", "tdg", "sx"]
ROT = ["rx", "ry", "rz", "p"]
NAME = {"h": "H", "x": "X", "y": "Y", "z": "Z", "s": "S", "sdg": "Sadj", "t": "T", "tdg": "Tadj", "sx": "SX", "rx": "Rx", "ry": "Ry", "rz": "Rz", "p": "P"}
ANGLES = [0.7, -1.3]


def _ops(n):
    single = [(g, (q,)) for g in SINGLE + ROT for q in range(n)]
    multi = []
    for a, b in itertools.permutations(range(n), 2):
        multi.append(("cx", (a, b)))
        multi.append(("cz", (a, b)))
    for a, b in itertools.combinations(range(n), 2):
        multi.append(("swap", (a, b)))
    if n >= 3:
        for p in itertools.permutations(range(3)):
            multi.append(("ccx", p))
        multi.append(("ccz", (0, 1, 2)))
        multi.append(("ccz", (2, 0, 1)))
    return single, multi


def _apply_ref(ctx, state, gate, qubits, angle):
    """apply a gate to a state {bits: amp}"""
    m = ctx.m
    if gate in NAME:
        if gate in ROT:
            a = angle
            G = gate_matrix(ctx, NAME[gate], a)
        else:
            G = gate_matrix(ctx, NAME[gate], None)
        q = qubits[0]
        out = {}
        for b, amp in state.items():
            for o in (0, 1):
                g = G[(o,)][(b[q],)]
                if type(g) is int and g == 0:
                    continue
                nb = b[:q] + (o,) + b[q + 1:]
                out[nb] = out[nb] + amp * g if nb in out else amp * g
        return out
    out = {}
    for b, amp in state.items():
        nb = list(b)
        ph = 1
        if gate == "cx":
            c, t = qubits
            if b[c]:
                nb[t] = 1 - nb[t]
        elif gate == "cz":
            c, t = qubits
            if b[c] and b[t]:
                ph = -1
        elif gate == "swap":
            a, c = qubits
            nb[a], nb[c] = b[c], b[a]
        elif gate == "ccx":
            c1, c2, t = qubits
            if b[c1] and b[c2]:
                nb[t] = 1 - nb[t]
        elif gate == "ccz":
            if all(b[q] for q in qubits):
                ph = -1
        nb = tuple(nb)
        out[nb] = out[nb] + amp * ph if nb in out else amp * ph
    return out


def h_program(ctx, n, program, allow, registers=None):
    lw = ctx.lw
    from qiskit import QuantumCircuit, QuantumRegister
    if registers is None:
        qc = QuantumCircuit(n)
    else:
        # the same program on a circuit made of several quantum registers (gates are
        # addressed by circuit-wide qubit index, as everywhere in qiskit)
        qc = QuantumCircuit(*[QuantumRegister(sz, f"reg{i}") for i, sz in enumerate(registers)])
    angles = {}
    for k, (gate, qubits) in enumerate(program):
        if gate in ROT:
            th = ANGLES[k % len(ANGLES)]
            angles[k] = th
            getattr(qc, gate)(th, *qubits)
        else:
            getattr(qc, gate)(*qubits)
    # reference operator columns
    sym_angle = {}
    for k, th in angles.items():
        if ctx.symbolic:
            from symx import alg
            sym_angle[k] = alg._float_angle(th)
        else:
            sym_angle[k] = th
    cols = {}
    for b in bits(n):
        st = {b: 1}
        for k, (gate, qubits) in enumerate(program):
            st = _apply_ref(ctx, st, gate, qubits, sym_angle.get(k))
        cols[b] = st
    if not ctx.symbolic:
        from qiskit.quantum_info import Operator
        op = Operator(qc).data
        worst = 0.0
        for bi in bits(n):
            for bo in bits(n):
                i = sum(bi[q] << q for q in range(n))
                o = sum(bo[q] << q for q in range(n))
                worst = max(worst, abs(complex(cols[bi].get(bo, 0)) - op[o, i]))
        ctx.check(worst < 1e-9, "reference-agrees-with-qiskit-operator", {"max": worst})
    import signal

    class _Hung(BaseException):
        pass

    def _alarm(signum, frame):
        raise _Hung()
    old = signal.signal(signal.SIGALRM, _alarm)
    signal.alarm(60)
    try:
        circ, rules = lw.qubit.qiskit_converter(qc, allow_post_selection=allow)
    except _Hung:
        ctx.fail("converter-returns-or-refuses", "no result after 60 s (program of at most five gates)")
        return
    except ValueError:
        # refusing is always allowed by the property
        ctx.check(True, "converter-refused")
        return
    finally:
        signal.alarm(0)
        signal.signal(signal.SIGALRM, old)
    her = circ.heralds
    n_user = circ.input_modes
    ctx.check(n_user == 2 * n, "user-modes")
    hp = sum(her["input"].values())
    if n + hp > (4 if ctx_bound(ctx) == "quick" else 5):
        ctx.reached()
        return
    U = circ.U_full
    if U.shape[0] != circ.n_modes:
        ctx.fail("converted-circuit-is-lossless")
        return
    rule_modes = set()
    if rules is not None:
        for r in rules.rules:
            ctx.check(len(r.modes) == 2 and r.modes[0] % 2 == 0 and r.modes[1] == r.modes[0] + 1 and tuple(r.n_photons) == (1,), "rules-are-one-photon-per-qubit-pair")
            rule_modes |= set(r.modes)
    all_out = ref.fock_states(n_user, n)
    sub = {tuple(dual_rail(b)): b for b in bits(n)}
    amps = {}
    tot = 0
    for bi in bits(n):
        fin = ref.insert_heralds(dual_rail(bi), her["input"])
        for o in all_out:
            if rules is not None and not rules.validate(lw.State(list(o))):
                continue
            fout = ref.insert_heralds(o, her["output"])
            a = ref.fock_amp(ctx, U, fin, fout)
            if tuple(o) in sub:
                amps[(sub[tuple(o)], bi)] = a
                tot = tot + ctx.m.abs2(a)
            else:
                ctx.check_eq(a, 0, "no-accepted-amplitude-outside-the-qubit-subspace")
    entries = [(bo, bi) for bi in bits(n) for bo in bits(n)]
    for x in range(len(entries)):
        for y in range(x + 1, len(entries)):
            (bo1, bi1), (bo2, bi2) = entries[x], entries[y]
            r1, r2 = cols[bi1].get(bo1, 0), cols[bi2].get(bo2, 0)
            a1, a2 = amps.get((bo1, bi1), 0), amps.get((bo2, bi2), 0)
            ctx.check_eq(a1 * r2, a2 * r1, "accepted-amplitudes-proportional-to-the-qiskit-unitary")
    nz = (tot != 0) if ctx.symbolic else abs(tot) > 1e-12
    ctx.check(nz, "common-scalar-is-non-zero")


_TIER = ["quick"]


def ctx_bound(ctx):
    return _TIER[0]


def xh_conditions(tier):
    return [dict(name="adjacent._adjacent", file="xh/c12_adjacent.py", func="_adjacent", timeout=90 if tier == "quick" else 300, prop="C12")]


def harnesses(tier):
    _TIER[0] = tier
    cases = []
    s2, m2 = _ops(2)
    for op in s2 + m2:
        for allow in (False, True):
            cases.append(dict(n=2, program=[op], allow=allow))
    for a in m2:
        for b in s2 + m2:
            for allow in (False, True):
                cases.append(dict(n=2, program=[a, b], allow=allow))
                if b not in m2:
                    cases.append(dict(n=2, program=[b, a], allow=allow))
    for op in s2 + m2:
        for allow in (False, True):
            cases.append(dict(n=2, program=[op], allow=allow, registers=(1, 1)))
    s3, m3 = _ops(3)
    for op in m3:
        for regs in ((1, 2), (2, 1), (1, 1, 1)):
            cases.append(dict(n=3, program=[op], allow=True, registers=regs))
    for op in m3:
        cases.append(dict(n=3, program=[op], allow=True))
        cases.append(dict(n=3, program=[op], allow=False))
    for a in m3:
        for b in m3:
            cases.append(dict(n=3, program=[a, b], allow=True))
    # 3 qubits, length 3: two entangling gates with a swap between them (a swap can carry a
    # qubit that looks free onto the wires of the later gate)
    ent3 = [op for op in m3 if op[0] != "swap"]
    swaps3 = [op for op in m3 if op[0] == "swap"]
    for a in ent3:
        for sw in swaps3:
            for b in ent3:
                if tier == "quick" and (a[0] in ("ccx",) and b[0] in ("ccx",)):
                    continue
                cases.append(dict(n=3, program=[a, sw, b], allow=True))
    # 4 qubits: gates on qubits three apart (the adjacency helper moves both qubits inward)
    for g in ("cx", "cz"):
        for qs in ((0, 3), (3, 0), (1, 3), (3, 1), (0, 2)):
            cases.append(dict(n=4, program=[(g, qs)], allow=True))
            cases.append(dict(n=4, program=[("h", (qs[1],)), (g, qs)], allow=True))
    # the same non-adjacent ordered pair used twice in one program (and a second time by another gate):
    # whatever the converter keeps between two uses of a pair must not change the second placement
    for allow in (True, False):
        cases.append(dict(n=3, program=[("cx", (0, 2)), ("h", (0,)), ("cx", (0, 2))], allow=allow))
        cases.append(dict(n=3, program=[("cz", (2, 0)), ("h", (1,)), ("cx", (2, 0))], allow=allow))
    cases.append(dict(n=4, program=[("cx", (0, 3)), ("h", (0,)), ("cx", (0, 3))], allow=True))
    cases.append(dict(n=4, program=[("swap", (0, 3)), ("cx", (3, 1))], allow=True))
    cases.append(dict(n=4, program=[("cx", (0, 3)), ("cz", (3, 1))], allow=True))
    if tier != "quick":
        for a in ent3:
            for b in ent3:
                for c in ent3[::3]:
                    cases.append(dict(n=3, program=[a, b, c], allow=True))
    if tier != "quick":
        for a in m2:
            for b in m2:
                for c in (("h", (0,)), ("ry", (1,)), ("cz", (0, 1)), ("cx", (1, 0))):
                    for allow in (False, True):
                        cases.append(dict(n=2, program=[a, c, b], allow=allow))
    return [("program", h_program, cases, dict(max_seconds=900)),
            ("program.raw", h_program, [c for c in cases if c["n"] == 2 and len(c["program"]) == 1][::5], dict(max_seconds=300, raw=True))]
