"""C13 -- the qubit gate library implements the gates it names."""
import itertools
from fractions import Fraction

import numpy as _np

from . import ref

PROPERTY = "C13"
LEVEL = "model_checking"
FUNCTIONS = [
    "lightworks.qubit.gates.single_qubit_gates.*.__init__",
    "lightworks.qubit.gates.two_qubit_gates.CZ/CNOT/CZ_Heralded/CNOT_Heralded/SWAP.__init__",
    "lightworks.qubit.gates.three_qubit_gates.CCZ/CCNOT.__init__",
    "lightworks.sdk.circuit.unitary.Unitary.__init__", "lightworks.sdk.circuit.components.UnitaryMatrix.__post_init__ (check_unitary executed on exact algebraic numbers)",
    "lightworks.sdk.circuit.circuit.Circuit.add/herald/_build_process (grouped, nested additions)",
]
ASSUMPTIONS = [
    "A-REAL (constants such as 2**0.5, 2**-0.25, (3/2**0.5-2)**0.5 are exact algebraic numbers through the loader's ** rewrite); A-LOADER; A-EXT",
    "amplitudes are computed by the reference Fock amplitude (permutation-sum permanent) from the library's own U_full and herald dictionaries; the Simulator path is C03",
]
BOUNDS = {
    "quick": "all 13 single-qubit gates (rotation angle symbolic; each rotation gate also constructed after other rotation gates with the same angle), CZ, CNOT(0/1), CZ_Heralded, CNOT_Heralded(0/1), SWAP on all mode pairs of <=5 modes; every dual-rail basis input; all outputs of the same photon number on the user modes",
    "thorough": "adds CCZ and CCNOT(0/1/2) and SWAP on <=6 modes",
}
OUTSIDE = "superpositions follow by linearity (stated); float rounding"
STUBS = []


def bits(q):
    return list(itertools.product((0, 1), repeat=q))


def dual_rail(b):
    out = []
    for x in b:
        out += [1, 0] if x == 0 else [0, 1]
    return out


def gate_matrix(ctx, name, arg):
    """textbook matrix G[out_bits][in_bits] as dict."""
    m = ctx.m
    I = m.I
    s2 = m.sqrt(2)

    def single(mat):
        return {(o,): {(i,): mat[o][i] for i in (0, 1)} for o in (0, 1)}
    if name == "I":
        return single([[1, 0], [0, 1]])
    if name == "H":
        return single([[1 / s2, 1 / s2], [1 / s2, -1 / s2]])
    if name == "X":
        return single([[0, 1], [1, 0]])
    if name == "Y":
        return single([[0, -I], [I, 0]])
    if name == "Z":
        return single([[1, 0], [0, -1]])
    if name == "S":
        return single([[1, 0], [0, I]])
    if name == "Sadj":
        return single([[1, 0], [0, -I]])
    if name == "T":
        return single([[1, 0], [0, (1 + I) / s2]])
    if name == "Tadj":
        return single([[1, 0], [0, (1 - I) / s2]])
    if name == "SX":
        h = m.frac(1, 2)
        return single([[h * (1 + I), h * (1 - I)], [h * (1 - I), h * (1 + I)]])
    if name == "P":
        return single([[1, 0], [0, m.expi(arg)]])
    if name == "Rx":
        c, s = m.cos(arg / 2), m.sin(arg / 2)
        return single([[c, -I * s], [-I * s, c]])
    if name == "Ry":
        c, s = m.cos(arg / 2), m.sin(arg / 2)
        return single([[c, -s], [s, c]])
    if name == "Rz":
        return single([[m.expi(-(arg / 2)), 0], [0, m.expi(arg / 2)]])
    q = {"CZ": 2, "CNOT": 2, "CZ_Heralded": 2, "CNOT_Heralded": 2, "SWAP": 2, "CCZ": 3, "CCNOT": 3}[name]
    G = {o: {i: 0 for i in bits(q)} for o in bits(q)}
    for i in bits(q):
        if name in ("CZ", "CZ_Heralded", "CCZ"):
            G[i][i] = -1 if all(i) else 1
        elif name in ("CNOT", "CNOT_Heralded", "CCNOT"):
            t = arg
            o = list(i)
            if all(i[j] for j in range(q) if j != t):
                o[t] = 1 - o[t]
            G[tuple(o)][i] = 1
        elif name == "SWAP":
            G[(i[1], i[0])][i] = 1
    return G


EXPECT_C2 = {"CZ": Fraction(1, 9), "CNOT": Fraction(1, 9), "CZ_Heralded": Fraction(1, 16), "CNOT_Heralded": Fraction(1, 16),
             "CCZ": Fraction(1, 72), "CCNOT": Fraction(1, 72)}


def h_gate(ctx, name, arg):
    lw = ctx.lw
    q = lw.qubit
    if name in ("P", "Rx", "Ry", "Rz"):
        theta = ctx.angle("theta", 2)
        if arg == "after-others":
            # a gate is the named gate whatever was constructed before it in the same process
            # (the same angle used for other rotation gates and for this one)
            for other in ("Rx", "Ry", "Rx", "Rz", "P", name):
                getattr(q, other)(theta)
        gate = getattr(q, name)(theta)
        G = gate_matrix(ctx, name, theta)
        nq = 1
    elif name == "SWAP":
        a, b = arg
        gate = q.SWAP(tuple(a), tuple(b))
        G = None
        nq = 2
    else:
        gate = getattr(q, name)(arg) if arg is not None else getattr(q, name)()
        G = gate_matrix(ctx, name, arg)
        nq = len(next(iter(G)))
    U = gate.U_full
    her = gate.heralds
    n_user = gate.input_modes
    ctx.check(set(her["input"]) == set(her["output"]) or True, "heralds-present")
    if name == "SWAP":
        # qubit a on modes (a0,a1), qubit b on (b0,b1); other modes idle
        a, b = arg
        n = max(a + b) + 1
        ctx.check(gate.n_modes == n and not her["input"], "swap:size-no-heralds")
        for ia, ib in bits(2):
            inp = [0] * n
            inp[a[ia]] += 1
            inp[b[ib]] += 1
            for oa, ob in bits(2):
                out = [0] * n
                out[a[oa]] += 1
                out[b[ob]] += 1
                want = 1 if (oa, ob) == (ib, ia) else 0
                ctx.check_eq(ref.fock_amp(ctx, U, inp, out), want, "swap:amplitude")
        return
    ctx.check(n_user == 2 * nq, f"{name}:user-modes")
    k_user = nq
    hp_in = her["input"]
    hp_out = her["output"]
    ctx.check(sorted(hp_in.values()) == sorted(hp_out.values()), f"{name}:herald-photons-match")
    n_loss = U.shape[0] - gate.n_modes
    ctx.check(n_loss == 0, f"{name}:lossless")
    all_out = ref.fock_states(n_user, k_user)
    subspace = {tuple(dual_rail(b)): b for b in bits(nq)}
    amps = {}
    for bi in bits(nq):
        fin = ref.insert_heralds(dual_rail(bi), hp_in)
        for o in all_out:
            fout = ref.insert_heralds(o, hp_out)
            amps[(tuple(o), bi)] = ref.fock_amp(ctx, U, fin, fout)
    # one common scalar c with amp = c*G, stated without division:
    #   amp_i * G_j == amp_j * G_i for all entry pairs, and sum|amp|^2 == |c|^2 * sum|G|^2
    entries = [(bo, bi) for bo in bits(nq) for bi in bits(nq)]
    for x in range(len(entries)):
        for y in range(x + 1, len(entries)):
            (bo1, bi1), (bo2, bi2) = entries[x], entries[y]
            a1 = amps[(tuple(dual_rail(bo1)), bi1)]
            a2 = amps[(tuple(dual_rail(bo2)), bi2)]
            ctx.check_eq(a1 * G[bo2][bi2], a2 * G[bo1][bi1], f"{name}:amplitudes-proportional-to-gate-matrix")
    tot_a = 0
    tot_g = 0
    for (bo, bi) in entries:
        tot_a = tot_a + ctx.m.abs2(amps[(tuple(dual_rail(bo)), bi)])
        tot_g = tot_g + ctx.m.abs2(G[bo][bi])
    want_c2 = EXPECT_C2.get(name, Fraction(1))
    ctx.check_eq(tot_a, ctx.m.frac(want_c2.numerator, want_c2.denominator) * tot_g, f"{name}:squared-scalar")
    ctx.check_eq(tot_g, 2 ** nq, f"{name}:reference-matrix-is-unitary-norm")
    if "Heralded" in name or nq == 1:
        for o in all_out:
            if tuple(o) not in subspace:
                for bi in bits(nq):
                    ctx.check_eq(amps[(tuple(o), bi)], 0, f"{name}:no-accepted-output-outside-qubit-subspace")


def cases(tier):
    out = []
    for nm in ("I", "H", "X", "Y", "Z", "S", "Sadj", "T", "Tadj", "SX", "P", "Rx", "Ry", "Rz"):
        out.append(dict(name=nm, arg=None))
    for nm in ("P", "Rx", "Ry", "Rz"):
        out.append(dict(name=nm, arg="after-others"))
    out.append(dict(name="CZ", arg=None))
    out.append(dict(name="CZ_Heralded", arg=None))
    for t in (0, 1):
        out.append(dict(name="CNOT", arg=t))
        out.append(dict(name="CNOT_Heralded", arg=t))
    nmax = 5 if tier == "quick" else 6
    for modes in itertools.permutations(range(nmax), 4):
        if tier == "quick" and max(modes) > 4:
            continue
        out.append(dict(name="SWAP", arg=((modes[0], modes[1]), (modes[2], modes[3]))))
    if tier != "quick":
        out.append(dict(name="CCZ", arg=None))
        for t in (0, 1, 2):
            out.append(dict(name="CCNOT", arg=t))
    return out


def harnesses(tier):
    return [("gate", h_gate, cases(tier)),
            ("gate.raw", h_gate, [c for c in cases(tier) if c["name"] not in ("SWAP", "CCZ", "CCNOT", "CZ_Heralded", "CNOT_Heralded")], dict(raw=True))]
