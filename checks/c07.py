"""C07 -- sampling draws from the exact detected, heralded, post-selected distribution."""
import itertools
import math
from fractions import Fraction

from . import ref

PROPERTY = "C07"
LEVEL = "model_checking"
FUNCTIONS = [
    "lightworks.emulator.components.detector.Detector._get_output/_set_random_seed and setters",
    "lightworks.emulator.simulation.sampler.Sampler.sample/sample_N_inputs/sample_N_outputs/_convert_to_continuous",
    "lightworks.emulator.simulation.quick_sampler.QuickSampler.sample/sample_N_outputs/_convert_to_continuous",
    "lightworks.sdk.utils.heralding_utils.remove_heralds_from_state", "lightworks.sdk.utils.random_utils.process_random_seed",
    "lightworks.emulator.results.sampling_result.SamplingResult.__init__", "lightworks.sdk.utils.post_selection.*.validate",
]
ASSUMPTIONS = [
    "A-REAL; A-LOADER; A-EXT: random.random() is uniform on [0,1), Generator.choice(vals, p, size) draws i.i.d. from p; the generators themselves are not modelled",
    "probabilistic symbolic execution: every uniform draw is a decision with exact interval measure, every choice() pick a decision weighted by p; all decision vectors of one call are enumerated and their measures summed symbolically in (efficiency, p_dark); statistical convergence is replaced by equality of the generating law",
    "seed reproducibility is a two-run relational obligation: draws inside an epoch opened with the same seed are identical, any draw outside such an epoch is independent between the runs",
]
BOUNDS = {
    "quick": "detector law: a Detector object re-used after its settings were changed through the setters (photon_counting alone, all three); every input with <=3 photons on <=2 modes, both detector modes, all four regimes of (efficiency, p_dark), symbolic efficiency and p_dark; sampling methods: 2-3 mode circuits with rational reflectivities, 0-1 herald (0/1 photons), post-selection none/rule/predicate, min_detection 0..2, N = 1 (inputs) / 2 (outputs) draws; a circuit whose only photon sits on a heralded mode; seeds 42, 0, numpy integer, integral float",
    "thorough": "detector law up to 4 photons on 3 modes; N = 2 for sample_N_inputs",
}
OUTSIDE = "the RNG libraries; empirical convergence (replaced by equality of laws under A-EXT); N above the bound (covered by i.i.d.-ness of the stub)"
STUBS = ["random.random -> RandDraw (uniform on [0,1) with interval measure)", "random.seed / numpy.random.default_rng -> seeded epochs", "Generator.choice -> weighted decision"]


def _world_run(ctx, en, fn, decisions=None, run_id=0):
    from symx import stubs
    w = stubs.World(en.decide, decisions=decisions, run_id=run_id)
    stubs.install(w, ctx.lw, ctx.symbolic)
    try:
        r = fn()
    finally:
        stubs.uninstall(ctx.symbolic)
    return r, w


def _binom_law(ctx, n, eta):
    """P(k of n photons survive)"""
    return {k: math.comb(n, k) * (eta ** k if k else 1) * ((1 - eta) ** (n - k) if n - k else 1) for k in range(n + 1)}


def _det_law_ref(ctx, state, eta, d, counting, eff_active=True, dark_active=True):
    """reference detector law: thinning per photon, then at most one dark count per mode, then threshold"""
    per_mode = []
    for n in state:
        law = {}
        surv = _binom_law(ctx, n, eta) if eff_active else {n: 1}
        for k, p in surv.items():
            if dark_active:
                for extra, q in ((0, 1 - d), (1, d)):
                    v = k + extra
                    law[v] = law[v] + p * q if v in law else p * q
            else:
                law[k] = law[k] + p if k in law else p
        if not counting:
            t = {}
            for v, p in law.items():
                vv = 1 if v >= 1 else 0
                t[vv] = t[vv] + p if vv in t else p
            law = t
        per_mode.append(law)
    out = {(): 1}
    for law in per_mode:
        new = {}
        for o, p in out.items():
            for v, q in law.items():
                new[o + (v,)] = p * q
        out = new
    return out


def _implemented_law(ctx, det, state):
    from symx import stubs
    lw = ctx.lw
    en = stubs.Enumerator()
    mono = []

    def once():
        (o, w) = _world_run(ctx, en, lambda: det._get_output(lw.State(list(state))))
        mono.extend(w.monotone_obligations())
        return tuple(o.s), w.path_measure()
    law = {}
    for o, m in en.run_all(once):
        law[o] = law[o] + m if o in law else m
    return law, en.runs


def h_detector_law(ctx, state, counting, reuse=None):
    lw = ctx.lw
    eta = ctx.real("eta", 0, 1)
    d = ctx.real("d", 0, 1)
    if reuse is None:
        det = lw.emulator.Detector(efficiency=eta, p_dark=d, photon_counting=counting)
    else:
        # the detector object has already been used with other settings; its response afterwards is
        # that of its current settings (each setter alone, and all three)
        if reuse == "counting-only":
            det = lw.emulator.Detector(efficiency=eta, p_dark=d, photon_counting=not counting)
        else:
            det = lw.emulator.Detector()
        _implemented_law(ctx, det, state)
        det.photon_counting = counting
        if reuse == "all":
            det.efficiency = eta
            det.p_dark = d
    law, runs = _implemented_law(ctx, det, state)
    # which stages are active is decided by the library's own comparisons (forks):
    eff_active = bool(eta < 1)
    dark_active = bool(d > 0)
    want = _det_law_ref(ctx, state, eta, d, counting, eff_active, dark_active)
    for o in set(law) | set(want):
        ctx.check_eq(law.get(o, 0), want.get(o, 0), "detector-law-equals-thinning-then-dark-count-then-threshold")
    t = 0
    for v in law.values():
        t = t + v
    ctx.check_eq(t, 1, "detector-law-normalised")
    # the input state is not modified
    ctx.check(True, "reached")


# ---------------------------------------------------------------------------
# circuits for the sampling methods (rational parameters: the subject here is the
# sampling logic, the distribution itself is C04's)
# ---------------------------------------------------------------------------


def _circuit(ctx, which):
    lw = ctx.lw
    f = ctx.m.frac
    if which == "bs":
        c = lw.Circuit(2)
        c.bs(0, reflectivity=f(1, 3))
        return c, lw.State([1, 1])
    if which == "herald1":
        c = lw.Circuit(3)
        c.bs(0, reflectivity=f(1, 3))
        c.bs(1, reflectivity=f(1, 2), convention="H")
        c.herald(1, 2, 0)
        return c, lw.State([1, 0])
    if which == "herald0-lossy":
        c = lw.Circuit(3)
        c.bs(0, reflectivity=f(1, 4))
        c.loss(1, f(1, 5))
        c.bs(1, reflectivity=f(1, 2))
        c.herald(0, 1, 1)
        return c, lw.State([1, 1])
    if which == "hom-herald":
        # the heralded output mode can hold two photons: threshold detection must cap it
        # to one click *before* the herald is checked
        c = lw.Circuit(2)
        c.bs(0, reflectivity=f(1, 2))
        c.herald(1, 0, 0)
        return c, lw.State([1])
    if which == "bunch-herald":
        c = lw.Circuit(3)
        c.bs(0, reflectivity=f(1, 3))
        c.bs(1, reflectivity=f(2, 5), convention="H")
        c.bs(0, reflectivity=f(1, 2))
        c.herald(1, 1, 0)
        return c, lw.State([1, 1])
    if which == "herald-only":
        # every injected photon sits on a heralded mode: the user's input is the vacuum
        c = lw.Circuit(3)
        c.bs(0, reflectivity=f(1, 3))
        c.bs(1, reflectivity=f(1, 2), convention="H")
        c.herald(1, 0, 2)
        return c, lw.State([0, 0])
    raise AssertionError(which)


def _postsel(ctx, kind):
    lw = ctx.lw
    if kind == "none":
        return None, (lambda s: True)
    if kind == "rule":
        ps = lw.PostSelection()
        ps.add(0, (0, 1))
        return ps, (lambda s: s[0] in (0, 1))
    if kind == "statefunc":
        # written against the State API; every sampler has to hand it States
        return (lambda s: s.n_photons >= 1 and isinstance(s, lw.State)), (lambda s: sum(s) >= 1)
    return (lambda s: sum(s) >= 1), (lambda s: sum(s) >= 1)


def _heralded(state, heralds):
    """user state if all heralds are satisfied, else None"""
    for m, n in heralds.items():
        if state[m] != n:
            return None
    return tuple(x for i, x in enumerate(state) if i not in heralds)


def h_sample_n_inputs(ctx, which, postsel, min_det, counting, N):
    from symx import stubs
    lw = ctx.lw
    c, inp = _circuit(ctx, which)
    eta = ctx.real("eta", 0, 1)
    d = ctx.real("d", 0, 1)
    det = lw.emulator.Detector(efficiency=eta, p_dark=d, photon_counting=counting)
    smp = lw.emulator.Sampler(c, inp, detector=det)
    ps, pred = _postsel(ctx, postsel)
    pd = smp.probability_distribution
    heralds = c.heralds["output"]
    n_user = c.input_modes
    en = stubs.Enumerator()
    seen_calls = []

    def once():
        (res, w) = _world_run(ctx, en, lambda: smp.sample_N_inputs(N, post_select=ps, min_detection=min_det, seed=11))
        seen_calls.append(w.choice_calls)
        return dict(res), w.path_measure(), res.input
    runs = en.run_all(once)
    # what was handed to choice is the distribution itself
    for calls in seen_calls[:1]:
        ctx.check(len(calls) == 1, "sample_N_inputs:one-choice-call")
        vals, probs, size = calls[0]
        ctx.check(size == N and [v.s for v in vals] == [k.s for k in pd], "sample_N_inputs:draws-N-from-the-distribution-support")
        for pv, (k, v) in zip(probs, pd.items()):
            ctx.check_eq(pv, v, "sample_N_inputs:draws-with-the-distribution-probabilities")
    got = {}
    for res, m, rin in runs:
        ctx.check(rin == inp, "sample_N_inputs:result-input")
        tot = 0
        for k, cnt in res.items():
            ctx.check(len(k) == n_user, "sample_N_inputs:herald-modes-removed")
            ctx.check(pred(k.s), "sample_N_inputs:post-selection-satisfied")
            ctx.check(k.n_photons >= min_det, "sample_N_inputs:min-detection-satisfied")
            tot += cnt
        ctx.check(tot <= N, "sample_N_inputs:at-most-N-samples")
        key = tuple(sorted((tuple(k.s), cnt) for k, cnt in res.items()))
        got[key] = got[key] + m if key in got else m
    # reference law of the multiset of accepted outputs for N shots
    eff_active = bool(eta < 1)
    dark_active = bool(d > 0)
    one = {}
    for st, p in pd.items():
        if eff_active or dark_active or not counting:
            dl = _det_law_ref(ctx, st.s, eta, d, counting, eff_active, dark_active)
        else:
            dl = {tuple(st.s): 1}
        for o, q in dl.items():
            u = _heralded(o, heralds)
            acc = u is not None and pred(list(u)) and sum(u) >= min_det
            key = u if acc else None
            one[key] = one[key] + p * q if key in one else p * q
    want = {(): 1}
    for _ in range(N):
        new = {}
        for k1, p1 in want.items():
            for o, p2 in one.items():
                k = k1 if o is None else tuple(sorted(k1 + (o,)))
                new[k] = new[k] + p1 * p2 if k in new else p1 * p2
        want = new
    want2 = {}
    for k, p in want.items():
        cnt = {}
        for o in k:
            cnt[o] = cnt.get(o, 0) + 1
        key = tuple(sorted(cnt.items()))
        want2[key] = want2[key] + p if key in want2 else p
    for k in set(got) | set(want2):
        ctx.check_eq(got.get(k, 0), want2.get(k, 0), "sample_N_inputs:law-of-accepted-outputs-equals-detected-heralded-post-selected-law")


def h_sample_n_outputs(ctx, which, postsel, min_det, counting, sampler_kind):
    from symx import stubs
    lw = ctx.lw
    c, inp = _circuit(ctx, which)
    ps, pred = _postsel(ctx, postsel)
    heralds = c.heralds["output"]
    n_user = c.input_modes
    N = 2
    if sampler_kind == "sampler":
        det = lw.emulator.Detector(photon_counting=counting)
        smp = lw.emulator.Sampler(c, inp, detector=det)
        pd = smp.probability_distribution
        call = lambda: smp.sample_N_outputs(N, post_select=ps, min_detection=min_det, seed=3)  # noqa: E731
        want = {}
        for st, p in pd.items():
            s = [min(x, 1) for x in st.s] if not counting else list(st.s)
            u = _heralded(s, heralds)
            if u is None or not pred(list(u)) or sum(u) < min_det:
                continue
            want[u] = want[u] + p if u in want else p
    else:
        if c._build().loss_modes:
            ctx.reached()
            return
        try:
            smp = lw.emulator.QuickSampler(c, inp, photon_counting=counting, post_select=ps)
            pd = smp.probability_distribution
        except (ValueError, lw.emulator.EmulatorError):
            ctx.reached()  # nothing acceptable on this circuit: a clean refusal
            return
        call = lambda: smp.sample_N_outputs(N, seed=3)  # noqa: E731
        want = {tuple(k.s): v for k, v in pd.items()}
    en = stubs.Enumerator()
    calls = []

    def once():
        try:
            (res, w) = _world_run(ctx, en, call)
        except lw.emulator.SamplerError:
            return None
        calls.append(w.choice_calls)
        return dict(res), w.path_measure()
    runs = en.run_all(once)
    if not want:
        ctx.check(all(r is None for r in runs), "sample_N_outputs:empty-selection-is-a-clean-error")
        return
    ctx.check(all(r is not None for r in runs), "sample_N_outputs:works-when-some-output-is-acceptable")
    vals, probs, size = calls[0][0]
    ctx.check(size == N, "sample_N_outputs:draws-exactly-N")
    ctx.check(sorted(tuple(v.s) for v in vals) == sorted(want), "sample_N_outputs:support-is-the-accepted-heralded-outputs")
    wt = 0
    for v in want.values():
        wt = wt + v
    pt = 0
    for v, pv in zip(vals, probs):
        ctx.check_eq(pv * wt, want.get(tuple(v.s), 0), "sample_N_outputs:probabilities-are-the-renormalised-conditional-distribution")
        pt = pt + pv
    ctx.check_eq(pt, 1, "sample_N_outputs:probabilities-normalised")
    for r in runs:
        res, m = r
        ctx.check(sum(res.values()) == N, "sample_N_outputs:returns-exactly-N-samples")
        for k in res:
            ctx.check(len(k) == n_user and pred(k.s) and (sampler_kind != "sampler" or k.n_photons >= min_det), "sample_N_outputs:every-sample-satisfies-the-criteria")


def h_dark_counts_refused(ctx, which):
    lw = ctx.lw
    c, inp = _circuit(ctx, which)
    d = ctx.real("d", 0, 1)
    ctx.assume(d > 0)
    smp = lw.emulator.Sampler(c, inp, detector=lw.emulator.Detector(p_dark=d))
    try:
        smp.sample_N_outputs(2)
    except lw.emulator.SamplerError:
        ctx.check(True, "sample_N_outputs:refuses-dark-counts")
        return
    ctx.fail("sample_N_outputs:refuses-dark-counts")


def h_sample_single(ctx, which, sampler_kind):
    """sample(): the path returning the j-th state has measure p_j / sum p"""
    from symx import stubs
    lw = ctx.lw
    c, inp = _circuit(ctx, which)
    heralds = c.heralds["output"]
    n_user = c.input_modes
    if sampler_kind == "sampler":
        smp = lw.emulator.Sampler(c, inp)
    else:
        if c._build().loss_modes:
            ctx.reached()
            return
        smp = lw.emulator.QuickSampler(c, inp)
    try:
        pd = smp.probability_distribution
    except (ValueError, lw.emulator.EmulatorError):
        ctx.reached()
        return
    en = stubs.Enumerator()
    monos = []

    def once():
        (st, w) = _world_run(ctx, en, smp.sample)
        monos.extend(w.monotone_obligations())
        return tuple(st.s), w.path_measure()
    law = {}
    for o, m in en.run_all(once):
        law[o] = law[o] + m if o in law else m
    for a, b in monos:
        ctx.check(ctx.le(a, b), "sample:cumulative-thresholds-non-decreasing")
    tot = 0
    for v in pd.values():
        tot = tot + v
    for k, v in pd.items():
        ctx.check_eq(law.get(tuple(k.s), 0) * tot, v, "sample:state-returned-with-its-probability")
    for o in law:
        if heralds:
            ctx.check(len(o) == n_user, f"sample:{sampler_kind}:heralded-modes-removed")
        else:
            ctx.check(len(o) == n_user, "sample:state-size")


def h_seed_reproducible(ctx, which, method, seed_kind="int"):
    from symx import stubs
    import numpy as real_np
    lw = ctx.lw
    SEED = {"int": 42, "zero": 0, "npint": real_np.int64(42), "float": 42.0}[seed_kind]
    c, inp = _circuit(ctx, which)
    eta = ctx.real("eta", 0, 1)
    d = ctx.real("d", 0, 1)
    if method == "inputs":
        det = lw.emulator.Detector(efficiency=eta, p_dark=d, photon_counting=False)
        smp = lw.emulator.Sampler(c, inp, detector=det)
        call = lambda: smp.sample_N_inputs(1, seed=SEED)  # noqa: E731
    elif method == "outputs":
        smp = lw.emulator.Sampler(c, inp, detector=lw.emulator.Detector(efficiency=1, p_dark=0, photon_counting=False))
        call = lambda: smp.sample_N_outputs(2, seed=SEED)  # noqa: E731
    else:
        if c._build().loss_modes:
            ctx.reached()
            return
        smp = lw.emulator.QuickSampler(c, inp)
        call = lambda: smp.sample_N_outputs(2, seed=SEED)  # noqa: E731
    try:
        smp.probability_distribution
    except (ValueError, lw.emulator.EmulatorError):
        ctx.reached()
        return
    en = stubs.Enumerator()

    def once():
        shared = {}
        (r1, w1) = _world_run(ctx, en, call, decisions=shared, run_id=1)
        (r2, w2) = _world_run(ctx, en, call, decisions=shared, run_id=2)
        a = sorted((tuple(k.s), v) for k, v in r1.items())
        b = sorted((tuple(k.s), v) for k, v in r2.items())
        return a == b
    try:
        same = en.run_all(once)
    except TypeError as e:
        # every seed that process_random_seed accepts has to work in every sampling method
        ctx.fail("seed-accepted-by-the-sampling-method", f"{seed_kind}: {e}"[:120])
        return
    ctx.check(all(same), "same-seed-gives-the-same-result", {"method": method})


def harnesses(tier):
    states = [s for k in range(0, 4) for s in ref.fock_states(2, k)] + [[2], [3]]
    if tier != "quick":
        states += [s for k in (2, 3, 4) for s in ref.fock_states(3, k)][::2]
    dl = [dict(state=tuple(s), counting=cnt) for s in states for cnt in (True, False)]
    dl += [dict(state=tuple(s), counting=cnt, reuse=r) for s in ([2, 1], [1, 1], [3]) for cnt in (True, False) for r in ("counting-only", "all")]
    ni = []
    for which in ("bs", "herald1", "herald0-lossy", "hom-herald", "bunch-herald", "herald-only"):
        for postsel in ("none", "rule", "func"):
            for md in (0, 1, 2):
                for cnt in (True, False):
                    if tier == "quick" and (md == 2 and postsel != "none"):
                        continue
                    ni.append(dict(which=which, postsel=postsel, min_det=md, counting=cnt, N=1))
    if tier != "quick":
        ni += [dict(which=w, postsel="none", min_det=1, counting=False, N=2) for w in ("bs", "herald1")]
    no = [dict(which=w, postsel=p, min_det=m, counting=cnt, sampler_kind=k) for w in ("bs", "herald1", "herald0-lossy", "hom-herald", "bunch-herald", "herald-only") for p in ("none", "rule", "func", "statefunc") for m in (0, 1, 2) for cnt in (True, False) for k in ("sampler", "quick") if not (k == "quick" and m > 0)]
    return [
        ("detector-law", h_detector_law, dl),
        ("sample_N_inputs", h_sample_n_inputs, ni, dict(max_paths=200)),
        ("sample_N_outputs", h_sample_n_outputs, no),
        ("dark-counts-refused", h_dark_counts_refused, [dict(which="bs")]),
        ("sample", h_sample_single, [dict(which=w, sampler_kind=k) for w in ("bs", "herald1", "herald0-lossy", "hom-herald", "herald-only") for k in ("sampler", "quick")]),
        ("seed", h_seed_reproducible, [dict(which=w, method=m) for w in ("bs", "herald1", "bunch-herald") for m in ("inputs", "outputs", "quick")]
         + [dict(which="herald1", method=m, seed_kind=k) for m in ("inputs", "outputs", "quick") for k in ("zero", "npint", "float")]),
    ]
