"""C14 -- Reck mapping reproduces any unitary; noise enters only through the error model."""
import itertools
import math

import numpy as _np

from . import ref

PROPERTY = "C14"
LEVEL = "model_checking"
FUNCTIONS = [
    "lightworks.interferometers.decomposition.reck_decomposition/bs_matrix/check_null",
    "lightworks.interferometers.reck.Reck.map", "lightworks.interferometers.error_model.ErrorModel getters/_set_random_seed",
    "lightworks.interferometers.dists.Constant/TopHat/Gaussian.value/set_random_seed",
    "compile path of C01 for the mapped circuit",
]
ASSUMPTIONS = [
    "A-REAL (consequence: x % (2 pi) lies in [0, 2 pi) by definition; the float artefact 'tiny negative x gives exactly 2 pi' is outside the claim); A-LOADER; A-EXT",
    "angles are symbolic objects: arctan(q) has cos = 1/sqrt(1+q^2), sin = q/sqrt(1+q^2); angle(z) has cos = re/|z|, sin = im/|z| and range (-pi, pi]; np.angle(0) = 0 as documented by numpy",
    "random draws of the error model are solver variables: Generator.random() in [0,1), Generator.normal() any real in [-3,3] (a sound subset is enough to exercise the resampling loop), derived sub-seeds are deterministic functions of (seed, k)",
]
BOUNDS = {
    "quick": "bs_matrix unitary for all theta, phi on n<=4; end to end: every 2x2 unitary (three symbolic angles), all monomial matrices P.diag(e^{i alpha_j}) for every permutation P with N<=3 and symbolic phases (identity and permutations included: the exactly-zero-entry region), block-diagonal 1 (+) U(2); heralded originals; error model: TopHat/Constant/Gaussian value ranges with symbolic bounds (Gaussian loop unrolled 4), noisy mapping still unitary with U a sub-block, same seed same circuit; a default-built Reck stays ideal after the error model of another default-built Reck was configured",
    "thorough": "monomial matrices for N = 4",
}
OUTSIDE = "symbolic (randomly drawn) phase offsets: phase arithmetic modulo 2 pi on a symbolic real is not modelled, phase offsets are exercised as constants; dense unitaries of size >= 3 end to end (nested radicals beyond the solver's reach; covered only through bs_matrix unitarity, the N=2 case and the loop-index structure exercised by the monomial family); Gaussian resampling beyond 4 iterations; float rounding"
STUBS = ["numpy Generator.random/normal/integers -> symbolic draws keyed by seed epoch"]


def h_bs_matrix(ctx, n, m):
    from lightworks.interferometers.decomposition import bs_matrix
    theta = ctx.angle("theta", 2)
    phi = ctx.angle("phi")
    M = bs_matrix(m, m + 1, theta, phi, n)
    P, I = ref.is_unitary_residuals(ctx, M)
    ctx.check_eq(P, I, "bs_matrix-is-unitary")
    for i in range(n):
        for j in range(n):
            if i not in (m, m + 1) or j not in (m, m + 1):
                ctx.check_eq(M[i, j], 1 if i == j else 0, "bs_matrix-acts-on-its-two-modes-only")


def _phases_ok(ctx, mapped, label):
    """every programmed phase lies in [0, 2 pi)"""
    from lightworks.sdk.circuit.components import PhaseShifter
    for comp in mapped._get_circuit_spec():
        if isinstance(comp, PhaseShifter):
            ph = comp.phi
            if ctx.symbolic:
                from symx import alg
                if isinstance(ph, alg.Ang):
                    ctx.check(ph.in_0_2pi(), label + ":programmed-phase-in-[0,2pi)")
                else:
                    ctx.check((ph >= 0) & (ph < 2 * math.pi) if isinstance(ph, alg.Sx) else 0 <= float(ph) < 2 * math.pi, label + ":programmed-phase-in-[0,2pi)")
            else:
                # float: x % (2 pi) may round to exactly 2 pi for tiny negative x (outside A-REAL)
                ctx.check(-ctx.tol <= ph <= 2 * math.pi + ctx.tol, label + ":programmed-phase-in-[0,2pi)")


def _structure_ok(ctx, mapped, n, label):
    from lightworks.sdk.circuit.components import Barrier, BeamSplitter, Loss, PhaseShifter
    ok = True
    for comp in mapped._get_circuit_spec():
        if isinstance(comp, BeamSplitter):
            ok = ok and abs(comp.mode_1 - comp.mode_2) == 1
        elif not isinstance(comp, (PhaseShifter, Barrier, Loss)):
            ok = False
    ctx.check(ok, label + ":only-adjacent-beam-splitters-and-phase-shifters")


def _map_and_compare(ctx, c, label):
    lw = ctx.lw
    U0 = c.U
    obs = (c.n_modes, c.heralds, len(c._get_circuit_spec()))
    try:
        mapped = lw.interferometers.Reck().map(c)
    except ZeroDivisionError:
        ctx.reached()
        return
    ctx.check(mapped.n_modes == c.n_modes and mapped.heralds == c.heralds, label + ":modes-and-heralds-of-the-original")
    _structure_ok(ctx, mapped, c.n_modes, label)
    _phases_ok(ctx, mapped, label)
    # "to numerical precision": entries the decomposition treats as zero (|u| < 1e-20) may
    # leave a residual of that order; everywhere else the identity is exact
    ctx.check_close(mapped.U, U0, ctx.m.frac(1, 10**9), label + ":mapped-unitary-equals-original")
    ctx.check((c.n_modes, c.heralds, len(c._get_circuit_spec())) == obs, label + ":original-unchanged")


def h_general2(ctx, herald):
    lw = ctx.lw
    V = ctx.unitary2("V")
    g = ctx.angle("gamma")
    c = lw.Circuit(2)
    c.add(lw.Unitary(V), 0)
    c.ps(0, g)
    c.ps(1, g)
    if herald:
        c.herald(1, 0, 1)
    _map_and_compare(ctx, c, "u2")


def h_monomial(ctx, perm, herald):
    lw = ctx.lw
    n = len(perm)
    c = lw.Circuit(n)
    c.mode_swaps({i: perm[i] for i in range(n) if perm[i] != i})
    for i in range(n):
        c.ps(i, ctx.angle(f"a{i}"))
    if herald:
        c.herald(0, n - 1)
    _map_and_compare(ctx, c, "monomial")


def h_block(ctx):
    lw = ctx.lw
    V = ctx.unitary2("V")
    c = lw.Circuit(3)
    c.add(lw.Unitary(V), ctx.choice("at", [0, 1]))
    c.ps(0, ctx.angle("g"))
    _map_and_compare(ctx, c, "block")


def _install(ctx, decisions=None, run_id=0):
    from symx import stubs
    w = stubs.World(lambda n=2: 0, decisions=decisions, run_id=run_id, ctx=ctx)
    w.max_normal_draws = 4
    stubs.install(w, ctx.lw, ctx.symbolic)
    if not ctx.symbolic:
        import numpy.random as npr
    return w


def h_dist_ranges(ctx, kind, bounds="both"):
    from symx import stubs
    lw = ctx.lw
    d = lw.interferometers.dists
    lo = ctx.real("lo", -2, 2)
    hi = ctx.real("hi", -2, 2)
    ctx.assume(lo <= hi)
    w = _install(ctx)
    try:
        if kind == "tophat":
            dist = d.TopHat(lo, hi)
            dist.set_random_seed(5)
            v = dist.value()
            ctx.check(ctx.ge(v, lo), "tophat:value-at-least-min")
            ctx.check(ctx.le(v, hi), "tophat:value-at-most-max")
        elif kind == "constant":
            dist = d.Constant(lo)
            ctx.check_eq(dist.value(), lo, "constant:value")
        else:
            use_lo = bounds in ("both", "min")
            use_hi = bounds in ("both", "max")
            dist = d.Gaussian(ctx.real("mu", -2, 2), ctx.real("sigma", 0, 2), lo if use_lo else None, hi if use_hi else None)
            dist.set_random_seed(5)
            v = dist.value()
            if use_lo:
                ctx.check(ctx.ge(v, lo), f"gaussian:{bounds}:value-at-least-min")
            if use_hi:
                ctx.check(ctx.le(v, hi), f"gaussian:{bounds}:value-at-most-max")
            if not (use_lo or use_hi):
                ctx.check(True, "gaussian:unbounded-returns-a-value")
    finally:
        stubs.uninstall(ctx.symbolic)


def h_noisy_mapping(ctx, which, seed=9):
    """non-trivial error model: result is still a valid (sub-)unitary circuit; same seed -> same circuit"""
    from symx import stubs
    lw = ctx.lw
    itf = lw.interferometers
    em = itf.ErrorModel()
    f = ctx.m.frac
    if which == "tophat":
        em.bs_reflectivity = itf.dists.TopHat(f(2, 5), f(3, 5))
        em.loss = itf.dists.TopHat(f(0, 1), f(1, 10))
        em.phase_offset = itf.dists.Constant(f(1, 5))
    else:
        em.bs_reflectivity = itf.dists.Gaussian(f(1, 2), f(1, 50), f(2, 5), f(3, 5))
        em.loss = itf.dists.Constant(f(1, 20))
    c = lw.Circuit(2)
    c.mode_swaps({0: 1, 1: 0})
    c.ps(0, ctx.angle("a"))
    shared = {}
    w1 = _install(ctx, shared, 1)
    try:
        m1 = itf.Reck(em).map(c, seed=seed)
    finally:
        stubs.uninstall(ctx.symbolic)
    w2 = _install(ctx, shared, 2)
    try:
        m2 = itf.Reck(em).map(c, seed=seed)
    finally:
        stubs.uninstall(ctx.symbolic)
    U1 = m1.U_full
    P, I = ref.is_unitary_residuals(ctx, U1)
    ctx.check_eq(P, I, "noisy:U_full-still-unitary")
    ctx.check_eq(m1.U, U1[:2, :2], "noisy:U-is-a-sub-block")
    ctx.check(U1.shape == m2.U_full.shape, "noisy:same-seed-same-shape")
    if U1.shape == m2.U_full.shape:
        ctx.check_eq(U1, m2.U_full, "noisy:same-seed-gives-the-same-mapped-circuit")
    from lightworks.sdk.circuit.components import BeamSplitter, Loss
    for comp in m1._get_circuit_spec():
        if isinstance(comp, BeamSplitter):
            ctx.check(ctx.ge(comp.reflectivity, f(2, 5)) and ctx.le(comp.reflectivity, f(3, 5)), "noisy:drawn-reflectivity-within-declared-bounds")
        if isinstance(comp, Loss):
            ctx.check(ctx.ge(comp.loss, 0) and ctx.le(comp.loss, f(1, 10)), "noisy:drawn-loss-within-declared-bounds")


def h_default_model_isolated(ctx, herald):
    """noise enters only through the error model an interferometer was given: configuring the model of one
    default-built Reck (a public, mutable attribute) leaves every other default-built Reck ideal"""
    from symx import stubs
    lw = ctx.lw
    itf = lw.interferometers
    f = ctx.m.frac
    first = itf.Reck()
    first.error_model.loss = itf.dists.TopHat(f(1, 10), f(1, 5))
    first.error_model.bs_reflectivity = itf.dists.TopHat(f(2, 5), f(3, 5))
    c = lw.Circuit(2)
    c.mode_swaps({0: 1, 1: 0})
    c.ps(0, ctx.angle("a"))
    if herald:
        c.herald(0, 1)
    w = _install(ctx)
    try:
        first.map(c, seed=4)
        # a second interferometer built with the default (and one built with an explicit None)
        for k, other in enumerate((itf.Reck(), itf.Reck(None))):
            ctx.check(other.error_model is not first.error_model, "default-model:each-interferometer-has-its-own-error-model")
            mapped = other.map(c, seed=4)
            ctx.check(mapped.U_full.shape == c.U_full.shape, "default-model:no-loss-modes-with-the-default-model")
            if mapped.U_full.shape == c.U_full.shape:
                ctx.check_eq(mapped.U_full, c.U_full, "default-model:mapped-unitary-equals-original")
            ctx.check(mapped.heralds == c.heralds, "default-model:heralds-kept")
    finally:
        stubs.uninstall(ctx.symbolic)


def xh_conditions(tier):
    # float behaviour of the phase reduction (outside the real-arithmetic model of symx)
    t = 240 if tier == "quick" else 480
    return [dict(name="phases._permutation_phases_in_range", file="xh/c14_phases.py", func="_permutation_phases_in_range", timeout=t, prop="C14")]


def harnesses(tier):
    bs = [dict(n=n, m=m) for n in (2, 3, 4) for m in range(n - 1)]
    mono = []
    for n in ((2, 3) if tier == "quick" else (2, 3, 4)):
        for perm in itertools.permutations(range(n)):
            mono.append(dict(perm=list(perm), herald=False))
        mono.append(dict(perm=list(range(n))[::-1], herald=True))
    return [
        ("bs_matrix", h_bs_matrix, bs),
        ("general-2x2", h_general2, [dict(herald=False), dict(herald=True)], dict(check_timeout_ms=12000, max_seconds=900)),
        ("monomial", h_monomial, mono),
        ("block-diagonal", h_block, [dict()], dict(check_timeout_ms=12000, max_seconds=900)),
        ("dist-ranges", h_dist_ranges, [dict(kind=k) for k in ("tophat", "constant")] + [dict(kind="gaussian", bounds=b) for b in ("both", "min", "max", "none")]),
        ("default-model-isolated", h_default_model_isolated, [dict(herald=False), dict(herald=True)], dict(check_timeout_ms=60000)),
        ("noisy-mapping", h_noisy_mapping, [dict(which=w, seed=sd) for w in ("tophat", "gaussian") for sd in (9, 0)], dict(check_timeout_ms=60000)),
    ]
