"""C08 -- operations never modify their arguments; failed calls change nothing."""
PROPERTY = "C08"
LEVEL = "model_checking"
FUNCTIONS = [
    "lightworks.sdk.circuit.circuit.Circuit.add/__add__/copy/bs/ps/loss/barrier/mode_swaps/herald/unpack_groups/_add_empty_mode/_map_mode",
    "lightworks.sdk.circuit.circuit_utils.add_empty_mode_to_circuit_spec/add_modes_to_circuit_spec/unpack_circuit_spec/check_loss",
    "lightworks.emulator Simulator.simulate / Sampler.probability_distribution / QuickSampler / Analyzer.analyze (argument preservation only)",
]
ASSUMPTIONS = [
    "CrossHair models Python ints/lists/dicts faithfully; numeric content (matrices) is realised at the numpy boundary, which is irrelevant for this property",
    "observable state = (n_modes, input_modes, heralds, external heralds, internal modes, circuit spec repr, U_full rounded to 1e-9)",
    "shared Parameter objects are excluded by design",
]
BOUNDS = {
    "quick": "parents of 2..4 modes with 0/1 earlier heralded 3-mode sub-circuit at any position; argument circuits of 4 kinds (plain 2/3-mode, heralded, containing a group); any insertion mode 0..3, both group flags, used once or twice; six consumers (Simulator, Sampler incl. all sampling calls, QuickSampler, Analyzer, Reck().map with the default and a noisy error model) on 3/4-mode circuits with a parameter, optional loss, optional heralded sub-circuit and a herald on any mode (in = out or crossed, 0/1 photons); 8 construction operations with modes in -1..5 and values from {-0.5,0,0.3,1,1.5}",
    "thorough": "same with longer budgets",
}
OUTSIDE = "sizes beyond the bounds; Display, tomography and the qiskit converter as callers (their argument preservation is asserted inside C14, C19, C15, C12 harnesses where built)"
STUBS = []


def xh_conditions(tier):
    t = 240 if tier == "quick" else 480
    names = [f"_add_keeps_argument_k{k}_{w}" for k in range(4) for w in ("plain", "anc")] + ["_later_edits_keep_parent", "_rej_bs_modes", "_rej_bs_values", "_rej_ps_loss", "_rej_swaps_pair", "_rej_swaps_incomplete", "_rej_barrier", "_rej_herald_first", "_rej_herald_second", "_rej_add", "_copy_is_independent", "_frozen_copy_keeps_original", "_sum_keeps_operands"]
    names += [f"_consumer_{k}" for k in ("simulator", "sampler", "quick_sampler", "analyzer", "reck", "reck_noisy")]
    return [dict(name=f"args.{c}", file="xh/c08_args.py", func=c, timeout=t, prop="C08") for c in names]
