"""C15 -- state tomography reconstructs the prepared state."""
import itertools

import numpy as _np

from . import ref

PROPERTY = "C15"
LEVEL = "model_checking"
FUNCTIONS = [
    "lightworks.tomography.state_tomography.StateTomography.__init__/process/_create_circuit",
    "lightworks.tomography.utils._get_tomo_measurements/_get_required_tomo_measurements/_combine_all*/_calculate_expectation_value/_calculate_density_matrix",
    "lightworks.tomography.mappings.MEASUREMENT_MAPPING/PAULI_MAPPING", "lightworks.sdk.circuit.circuit.Circuit.add/copy (measurement circuits appended to the base circuit)",
]
ASSUMPTIONS = [
    "A-REAL; A-LOADER; A-EXT",
    "the prepared state is an arbitrary symbolic density matrix rho (Hermitian, unit trace, 4^n-1 real solver variables); the experiment callback is the noiseless oracle: from each circuit it receives it extracts D = U_received x U_base^dagger, checks that D is block diagonal in 2x2 blocks on the qubit mode pairs (identity elsewhere) and returns the exact outcome frequencies (M rho M^dagger)[b,b], M the tensor product of the blocks, in shuffled dictionary orders",
    "fidelity() uses scipy.linalg.sqrtm and is not encodable: outside the claim",
]
BOUNDS = {
    "quick": "n = 1, 2 qubits (and n = 3 with an empty base circuit); base circuits: empty, a symbolic single-qubit unitary (also added to the base circuit only after the StateTomography object was created), the post-selected CNOT and the heralded CZ from the library (ancilla modes present)",
    "thorough": "n = 3 (27 circuits, 64x64 linear forms) with an empty base and with CCZ",
}
OUTSIDE = "fidelity values (sqrtm); finite-shot statistics; n > 3"
STUBS = ["experiment callback -> exact outcome probabilities computed from the received circuits"]


def _rho(ctx, dim):
    m = ctx.m
    rho = m.zeros((dim, dim))
    tr = 0
    for i in range(dim):
        if i < dim - 1:
            v = ctx.real(f"d{i}", 0, 1)
            rho[i, i] = v
            tr = tr + v
        else:
            rho[i, i] = 1 - tr
    for i in range(dim):
        for j in range(i + 1, dim):
            a, b = ctx.real(f"a{i}_{j}", -1, 1), ctx.real(f"b{i}_{j}", -1, 1)
            rho[i, j] = a + m.I * b
            rho[j, i] = a - m.I * b
    return rho


def _base(ctx, n, kind):
    lw = ctx.lw
    if kind in ("empty", "unitary-late"):
        return lw.Circuit(2 * n)
    if kind == "unitary":
        c = lw.Circuit(2 * n)
        c.add(lw.Unitary(ctx.unitary2("B")), 0)
        if n > 1:
            c.bs(2, reflectivity=ctx.real("rb", 0, 1))
        return c
    if kind in ("direct-herald-first", "direct-herald-middle", "direct-herald-last"):
        # heralds declared on the base circuit itself (not inside an added gate): the visible
        # modes are no longer 0..2n-1
        hm = {"direct-herald-first": 0, "direct-herald-middle": 1 if n == 1 else 2, "direct-herald-last": 2 * n}[kind]
        c = lw.Circuit(2 * n + 1)
        vis = [i for i in range(2 * n + 1) if i != hm]
        c.bs(vis[0], vis[1], reflectivity=ctx.real("rb", 0, 1))
        c.ps(vis[1], ctx.angle("pb"))
        c.herald(0, hm)
        return c
    if kind == "cnot":
        c = lw.Circuit(4)
        c.add(lw.qubit.H(), 0)
        c.add(lw.qubit.CNOT(), 0)
        return c
    if kind == "cz_heralded":
        c = lw.Circuit(4)
        c.add(lw.qubit.CZ_Heralded(), 0)
        return c
    if kind == "ccz":
        c = lw.Circuit(6)
        c.add(lw.qubit.CCZ(), 0)
        return c
    raise AssertionError(kind)


def _observe(c):
    return (c.n_modes, c.input_modes, c.heralds, len(c._get_circuit_spec()))


def h_state_tomography(ctx, n, kind):
    lw = ctx.lw
    m = ctx.m
    dim = 2 ** n
    rho = _rho(ctx, dim)
    base = _base(ctx, n, kind)
    Ub = base.U_full
    obs0 = _observe(base)
    heralds = set(base.heralds["input"])
    users = [i for i in range(base.n_modes) if i not in heralds]
    calls = []
    s2 = m.sqrt(2)
    MX = [[1 / s2, 1 / s2], [1 / s2, -1 / s2]]
    MY = [[1 / s2, -m.I / s2], [1 / s2, m.I / s2]]      # H . S^dagger
    MZ = [[1, 0], [0, 1]]
    NAMED = {"X": MX, "Y": MY, "Z": MZ}
    settings_seen = []

    def experiment(circuits, *args):
        calls.append(len(circuits))
        out = []
        for ci, c in enumerate(circuits):
            ctx.check(c.n_modes == base.n_modes and c.heralds == base.heralds and c.input_modes == 2 * n, "callback:circuit-keeps-modes-and-heralds-of-base")
            U = c.U_full
            D = ref.matmul(ctx, U, m.dagger(Ub))
            blocks = []
            ok_struct = True
            setting = []
            for q in range(n):
                a, b = users[2 * q], users[2 * q + 1]
                blk = [[D[a, a], D[a, b]], [D[b, a], D[b, b]]]
                blocks.append(blk)
            # D must be identity outside the qubit blocks
            Dref = ref.eye(ctx, D.shape[0])
            for q in range(n):
                a, b = users[2 * q], users[2 * q + 1]
                Dref[a, a], Dref[a, b], Dref[b, a], Dref[b, b] = blocks[q][0][0], blocks[q][0][1], blocks[q][1][0], blocks[q][1][1]
            ctx.check_eq(D, Dref, "callback:circuit-is-base-followed-by-single-qubit-blocks")
            for q in range(n):
                name = None
                for nm, M in NAMED.items():
                    if all(ctx.is_zero(blocks[q][i][j] - M[i][j]) for i in range(2) for j in range(2)):
                        name = nm
                setting.append(name)
            ctx.check(all(s is not None for s in setting), "callback:blocks-are-the-X-Y-Z-basis-changes", {"setting": setting})
            settings_seen.append(tuple(setting))
            # exact outcome probabilities for the injected state
            M = _np.array([[1]], dtype=object)
            for q in range(n):
                blk = _np.empty((2, 2), dtype=object)
                for i in range(2):
                    for j in range(2):
                        blk[i, j] = blocks[q][i][j]
                M2 = _np.empty((M.shape[0] * 2, M.shape[1] * 2), dtype=object)
                for i in range(M.shape[0]):
                    for j in range(M.shape[1]):
                        for k in range(2):
                            for l in range(2):
                                M2[2 * i + k, 2 * j + l] = M[i, j] * blk[k, l]
                M = M2
            R = ref.matmul(ctx, ref.matmul(ctx, M, rho), m.dagger(M))
            res = {}
            order = list(itertools.product((0, 1), repeat=n))
            if ci % 2:
                order.reverse()
            for bits in order:
                idx = int("".join(map(str, bits)), 2)
                st = []
                for b in bits:
                    st += [1, 0] if b == 0 else [0, 1]
                res[lw.State(st)] = m.real(R[idx, idx]) if not ctx.symbolic else R[idx, idx].real
            out.append(res)
        return out

    tomo = lw.tomography.StateTomography(n, base, experiment)
    if kind == "unitary-late":
        # the base circuit is completed after the tomography object was created: the state the
        # base circuit prepares is the state of the circuit as it is when process() runs
        base.add(lw.Unitary(ctx.unitary2("B")), 0)
        if n > 1:
            base.bs(2, reflectivity=ctx.real("rb", 0, 1))
        Ub = base.U_full
        obs0 = _observe(base)
    got = tomo.process()
    ctx.check(calls == [3 ** n], "callback-called-once-with-3^n-circuits", {"calls": calls})
    ctx.check(len(set(settings_seen)) == 3 ** n and set(settings_seen) == set(itertools.product("XYZ", repeat=n)), "one-circuit-per-measurement-setting")
    ctx.check_eq(got, rho, "reconstructed-density-matrix-equals-prepared-state")
    ctx.check_eq(tomo.rho, rho, "rho-attribute")
    tr = 0
    for i in range(dim):
        tr = tr + got[i, i]
    ctx.check_eq(tr, 1, "unit-trace")
    ctx.check_eq(got, m.dagger(got), "hermitian")
    ctx.check(_observe(base) == obs0, "base-circuit-unchanged")
    ctx.check_eq(base.U_full, Ub, "base-circuit-unitary-unchanged")


def harnesses(tier):
    cases = [dict(n=1, kind="empty"), dict(n=1, kind="unitary"), dict(n=2, kind="empty"), dict(n=2, kind="unitary"), dict(n=2, kind="cnot"), dict(n=2, kind="cz_heralded")]
    cases.append(dict(n=3, kind="empty"))
    cases += [dict(n=1, kind="unitary-late"), dict(n=2, kind="unitary-late")]
    cases += [dict(n=1, kind=k) for k in ("direct-herald-first", "direct-herald-middle", "direct-herald-last")] + [dict(n=2, kind="direct-herald-middle")]
    if tier != "quick":
        cases += [dict(n=3, kind="ccz")]
    return [("state-tomography", h_state_tomography, cases, dict(max_seconds=1500)),
            ("state-tomography.raw", h_state_tomography, [c for c in cases if c["n"] == 1], dict(raw=True))]
