"""C19 -- any constructible circuit can be displayed, without side effects."""
PROPERTY = "C19"
LEVEL = "exploration"
FUNCTIONS = [
    "lightworks.sdk.visualisation.display.Display", "lightworks.sdk.visualisation.draw_circuit_svg.DrawCircuitSVG (all _add_* methods, draw)",
    "lightworks.sdk.visualisation.draw_circuit_mpl.DrawCircuitMPL (all _add_* methods, draw)", "lightworks.sdk.visualisation.display_components_svg.*", "lightworks.sdk.visualisation.display_utils.process_parameter_value",
]
ASSUMPTIONS = [
    "CrossHair chooses the structure (sizes, component kinds, modes, herald positions, nesting, flags, label count); parameter values come from a fixed table of representative values (multiples of pi/4, generic, negative) because numeric label formatting rounds floats, which CrossHair cannot confirm and the polynomial engine cannot encode",
    "matplotlib and drawsvg internals are executed concretely (Agg backend)",
]
BOUNDS = {
    "quick": "svg: circuits of 2..4 modes with two components of 8 kinds on any modes (incl. parameters with/without labels, loss display, parameter values); heralds on any in/out modes plus a heralded 3-mode group (any herald in/out position, optionally nested in a named group, optionally followed by more components) in both back ends; label lists of length 0..5 and three display types",
    "thorough": "adds the matplotlib back end for single components and longer budgets",
}
OUTSIDE = "circuits beyond the structural bounds; arbitrary real parameter values in labels (only the tabulated values); pixel-level content of the drawings"
STUBS = []


def xh_conditions(tier):
    t = 320 if tier == "quick" else 600
    names = [f"_bs_like_k{k}" for k in range(4)] + ["_ps_like", "_other"] + [f"_pair_k{k}" for k in range(8)] + ["_parent_heralds"] + [f"_group_n{n}_{w}" for n in (3, 4) for w in ("flat", "nested")] + ["_group_mpl", "_all_heralded_mpl", "_all_heralded_svg", "_labels_and_type", "_labels_ext_herald_mpl", "_labels_ext_herald_svg", "_barrier_variants"]
    if tier != "quick":
        names.append("_mpl_one")
    return [dict(name=f"display.{c}", file="xh/c19_display.py", func=c, timeout=t, prop="C19") for c in names]
