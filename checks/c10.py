"""C10 -- parameters are live, bounded and freezable."""
from . import ref

PROPERTY = "C10"
LEVEL = "model_checking"
FUNCTIONS = [
    "lightworks.sdk.circuit.parameters.Parameter.__init__/set/get/min_bound/max_bound/has_bounds", "lightworks.sdk.circuit.parameters.ParameterDict.__setitem__/__getitem__",
    "lightworks.sdk.circuit.components.BeamSplitter/PhaseShifter/Loss._reflectivity/_phi/_loss/validate",
    "lightworks.sdk.circuit.circuit.Circuit.get_all_params/copy/_freeze_params/add/U/U_full/_build",
]
ASSUMPTIONS = [
    "A-REAL; A-LOADER; values and bounds are real numbers (NaN/inf are outside 'numeric value')",
    "the bounds invariant is shown for one operation from an arbitrary state satisfying it; induction over sequences of operations is stated, not discharged",
]
BOUNDS = {
    "quick": "bounds step: any real value/min/max/update, 4 bound configurations x 4 operations x numeric/non-numeric arguments; two Parameters created from one bounds list/tuple (bound update of one, caller editing the list afterwards); liveness: parameters in bs reflectivity / ps phase / loss, plain, inside a group, inside an added heralded sub-circuit, reused twice; one set v1->v2",
    "thorough": "adds two successive operations on the same parameter and ParameterDict sequences",
}
OUTSIDE = "non-finite floats; parameters of non-numeric type other than the listed probes; circuits beyond the listed shapes"
STUBS = []


def _mk_param(ctx, cfg):
    lw = ctx.lw
    v = ctx.real("v")
    lo = ctx.real("lo") if cfg in ("both", "min") else None
    hi = ctx.real("hi") if cfg in ("both", "max") else None
    if lo is not None:
        ctx.assume(lo <= v)
    if hi is not None:
        ctx.assume(v <= hi)
    p = lw.Parameter(v, bounds=None if cfg == "none" else [lo, hi])
    return p, v, lo, hi


def _inv(ctx, p, label):
    v, lo, hi = p.get(), p.min_bound, p.max_bound
    if lo is not None:
        ctx.check(lo <= v, label + ":min<=value")
    if hi is not None:
        ctx.check(v <= hi, label + ":value<=max")


def _same(ctx, a, b, label):
    if a is None or b is None or isinstance(a, (str, bool)) or isinstance(b, (str, bool)):
        ctx.check(a is b or a == b, label)
    else:
        ctx.check_eq(a, b, label)


def h_bounds_step(ctx, cfg, op, arg, second):
    lw = ctx.lw
    from lightworks.sdk.utils.exceptions import ParameterBoundsError, ParameterValueError, ParameterDictError
    p, v, lo, hi = _mk_param(ctx, cfg)
    ctx.check(p.has_bounds() == (cfg != "none"), "has_bounds")
    pd = lw.ParameterDict(a=p)
    ops = [op] + ([second] if second else [])
    for k, o in enumerate(ops):
        x = {"real": ctx.real(f"x{k}"), "none": None, "str": "s", "bool": True}[arg if k == 0 else "real"]
        before = (p.get(), p.min_bound, p.max_bound)
        raised = False
        try:
            if o == "set":
                p.set(x)
            elif o == "min":
                p.min_bound = x
            elif o == "max":
                p.max_bound = x
            else:
                pd["a"] = x
        except (ParameterBoundsError, ParameterValueError, ParameterDictError):
            raised = True
        except TypeError:
            # comparing a non-numeric value with a bound: documented? no - must be a clean rejection
            raised = True
            ctx.fail(f"{o}:{arg}:rejection-is-a-parameter-error")
        after = (p.get(), p.min_bound, p.max_bound)
        if raised:
            for a, b, nm in zip(before, after, ("value", "min", "max")):
                _same(ctx, a, b, f"{o}:rejected-update-changes-nothing:{nm}")
        else:
            if o in ("set", "dict"):
                _same(ctx, after[0], x, f"{o}:accepted-update-takes-effect")
            if isinstance(after[0], (str, bool)) or after[0] is None:
                # non-numeric value can only be accepted when no bounds exist
                ctx.check(after[1] is None and after[2] is None, f"{o}:non-numeric-value-only-without-bounds")
                return
        _inv(ctx, p, f"{o}:invariant")
    ctx.check(pd["a"] is p, "dict-returns-the-parameter")


def bounds_cases(tier):
    out = []
    for cfg in ("both", "min", "max", "none"):
        for op in ("set", "min", "max", "dict"):
            for arg in ("real", "none", "str", "bool"):
                out.append(dict(cfg=cfg, op=op, arg=arg, second=None))
            if tier != "quick":
                for second in ("set", "min", "max", "dict"):
                    out.append(dict(cfg=cfg, op=op, arg="real", second=second))
    return out


# ---------------------------------------------------------------------------


def _build(ctx, where, pr, pphi, plam, reuse):
    """circuit using the three parameter-or-value arguments"""
    lw = ctx.lw
    if where == "plain":
        c = lw.Circuit(3)
        c.bs(0, reflectivity=pr)
        c.ps(1, pphi)
        c.loss(1, plam)
        if reuse:
            c.bs(1, 2, reflectivity=pr, convention="H")
            c.ps(0, pphi)
        return c
    if where == "group":
        inner = lw.Circuit(2)
        inner.bs(0, reflectivity=pr)
        inner.ps(1, pphi, loss=plam)
        c = lw.Circuit(3)
        c.add(inner, 1, group=True)
        if reuse:
            c.add(inner, 0, group=True)
        return c
    if where == "heralded":
        inner = lw.Circuit(3)
        inner.bs(0, reflectivity=pr)
        inner.bs(1, reflectivity=pr, loss=plam)
        inner.ps(2, pphi)
        inner.herald(0, 2)
        c = lw.Circuit(3)
        c.add(inner, 1)
        if reuse:
            c.ps(0, pphi)
        return c
    if where == "param-then-heralded":
        # parameterised components first, a heralded sub-circuit afterwards: the parent's own
        # spec is rewritten when the ancilla is inserted
        c = lw.Circuit(3)
        c.bs(0, reflectivity=pr)
        c.ps(1, pphi, loss=plam)
        sub = lw.Circuit(2)
        sub.bs(0)
        sub.herald(0, 1)
        c.add(sub, 1)
        if reuse:
            c.bs(1, reflectivity=pr, convention="H")
        return c
    if where == "param-sub-across-ancilla":
        # a parameterised, un-heralded sub-circuit added across an ancilla of the parent
        c = lw.Circuit(3)
        sub = lw.Circuit(2)
        sub.bs(0)
        sub.herald(0, 0)
        c.add(sub, 1)
        inner = lw.Circuit(3)
        inner.bs(0, 2, reflectivity=pr)
        inner.ps(1, pphi)
        inner.loss(2, plam)
        c.add(inner, 0, group=bool(reuse))
        return c
    if where == "nested":
        i1 = lw.Circuit(2)
        i1.bs(0, reflectivity=pr)
        i2 = lw.Circuit(2)
        i2.add(i1, 0, group=True)
        i2.ps(0, pphi)
        i2.loss(1, plam)
        c = lw.Circuit(3)
        c.add(i2, 0, group=True)
        c.add(i2, 1, group=False)
        return c
    raise AssertionError(where)


def h_live(ctx, where, reuse, rewrite=None):
    lw = ctx.lw
    r1, r2 = ctx.real("r1", 0, 1), ctx.real("r2", 0, 1)
    l1, l2 = ctx.real("l1", 0, 1), ctx.real("l2", 0, 1)
    # a Parameter-valued loss always creates a loss element, a plain value only if > 0:
    # compare like with like (value 0 is covered on the block U by h_zero_loss)
    ctx.assume(l1 > 0)
    ctx.assume(l2 > 0)
    f1, f2 = ctx.angle("f1"), ctx.angle("f2")
    pr, pphi, plam = lw.Parameter(r1), lw.Parameter(f1, label="phi"), lw.Parameter(l1, bounds=[0, 1])
    c = _build(ctx, where, pr, pphi, plam, reuse)
    ref1 = _build(ctx, where, r1, f1, l1, reuse)
    ctx.check_eq(c.U_full, ref1.U_full, "U-with-parameters-equals-U-with-values")
    params = c.get_all_params()
    ctx.check(len(params) == 3 and all(any(q is p for q in params) for p in (pr, pphi, plam)), "get_all_params-lists-each-parameter-once")
    frozen = c.copy(freeze_parameters=True)
    live_copy = c.copy()
    ctx.check(frozen.get_all_params() == [], "frozen-copy-lists-no-parameters")
    ctx.check(len(live_copy.get_all_params()) == 3, "plain-copy-keeps-parameters")
    if rewrite is not None:
        # an in-place rewrite of the circuit keeps it attached to its parameters
        getattr(c, rewrite)()
        after = c.get_all_params()
        ctx.check(len(after) == 3 and all(any(q is p for q in after) for p in (pr, pphi, plam)), f"after-{rewrite}:get_all_params-lists-the-same-parameter-objects")
        ctx.check_eq(c.U_full, ref1.U_full, f"after-{rewrite}:U-unchanged")
    which = ctx.choice("which", ["r", "phi", "lam", "all"])
    if which in ("r", "all"):
        pr.set(r2)
    if which in ("phi", "all"):
        pphi.set(f2)
    if which in ("lam", "all"):
        plam.set(l2)
    ref2 = _build(ctx, where, r2 if which in ("r", "all") else r1, f2 if which in ("phi", "all") else f1, l2 if which in ("lam", "all") else l1, reuse)
    ctx.check_eq(c.U_full, ref2.U_full, "U-follows-current-parameter-values" if rewrite is None else f"after-{rewrite}:U-follows-current-parameter-values")
    ctx.check_eq(c.U, ref2.U, "U-block-follows-current-parameter-values" if rewrite is None else f"after-{rewrite}:U-block-follows-current-parameter-values")
    ctx.check_eq(live_copy.U_full, ref2.U_full, "plain-copy-is-live")
    ctx.check_eq(frozen.U_full, ref1.U_full, "frozen-copy-keeps-old-values")
    ctx.check(frozen.heralds == c.heralds and frozen.n_modes == c.n_modes, "frozen-copy-keeps-heralds")


def live_cases(tier):
    base = [dict(where=w, reuse=r) for w in ("plain", "group", "heralded", "nested", "param-then-heralded", "param-sub-across-ancilla") for r in (False, True) if not (w == "nested" and r)]
    rew = [dict(where=w, reuse=r, rewrite=rw) for rw in ("unpack_groups", "compress_mode_swaps", "remove_non_adjacent_bs")
           for (w, r) in (("plain", True), ("group", False), ("heralded", True), ("param-sub-across-ancilla", True), ("param-sub-across-ancilla", False))]
    return base + rew


def h_invalid_value(ctx, which, side):
    lw = ctx.lw
    x = ctx.real("x")
    ctx.assume(x < 0 if side == "below" else x > 1)
    p = lw.Parameter(ctx.m.frac(1, 2))
    c = lw.Circuit(2)
    try:
        if which == "bs":
            c.bs(0, reflectivity=p)
        elif which == "loss":
            c.loss(0, p)
        else:
            c.bs(0, loss=p)
        p.set(x)
    except Exception as e:
        ctx.fail(f"{which}:construction-and-set-succeed", repr(e)[:100])
        return
    try:
        c.U_full
    except lw.CircuitCompilationError:
        ctx.check(True, f"{which}:invalid-value-surfaces-as-compilation-error")
        return
    ctx.fail(f"{which}:invalid-value-surfaces-as-compilation-error")


def h_zero_loss_param(ctx, via):
    """a Parameter given as loss= whose value is 0 at construction is still part of the circuit"""
    lw = ctx.lw
    l2 = ctx.real("l2", 0, 1)
    ctx.assume(l2 > 0)
    r = ctx.real("r", 0, 1)
    phi = ctx.angle("phi")
    pl = lw.Parameter(0)

    def build(loss):
        c = lw.Circuit(2)
        if via == "bs":
            c.bs(0, reflectivity=r, loss=loss)
        elif via == "ps":
            c.ps(1, phi, loss=loss)
            c.bs(0, reflectivity=r)
        else:
            c.bs(0, reflectivity=r)
            c.loss(0, loss)
        return c
    c = build(pl)
    ctx.check(any(p is pl for p in c.get_all_params()), f"{via}:zero-valued-loss-parameter-is-listed")
    ctx.check_eq(c.U, build(0).U, f"{via}:zero-loss-parameter:U-at-value-zero")
    pl.set(l2)
    ctx.check_eq(c.U, build(l2).U, f"{via}:zero-loss-parameter:U-follows-the-new-value")


def h_shared_bounds(ctx, container, op):
    """two Parameters created from the same bounds object: an accepted or rejected bound update of one never
    moves the other's bounds (its value stays inside its own bounds), and editing the caller's container
    afterwards changes neither"""
    lw = ctx.lw
    from lightworks.sdk.utils.exceptions import ParameterBoundsError, ParameterValueError
    lo, hi = ctx.real("lo"), ctx.real("hi")
    v1, v2 = ctx.real("v1"), ctx.real("v2")
    ctx.assume(lo <= v1)
    ctx.assume(v1 <= hi)
    ctx.assume(lo <= v2)
    ctx.assume(v2 <= hi)
    raw = [lo, hi]
    shared = raw if container == "list" else tuple(raw)
    p1 = lw.Parameter(v1, bounds=shared)
    p2 = lw.Parameter(v2, bounds=shared)
    x = ctx.real("x")
    try:
        if op == "min":
            p1.min_bound = x
        elif op == "max":
            p1.max_bound = x
        else:
            raw[0] = x
            raw[1] = x
    except (ParameterBoundsError, ParameterValueError):
        pass
    _same(ctx, p2.min_bound, lo, f"shared-bounds:{op}:other-parameter-keeps-its-min")
    _same(ctx, p2.max_bound, hi, f"shared-bounds:{op}:other-parameter-keeps-its-max")
    _inv(ctx, p2, f"shared-bounds:{op}:other-parameter:invariant")
    _inv(ctx, p1, f"shared-bounds:{op}:updated-parameter:invariant")
    if op == "caller-edit":
        _same(ctx, p1.min_bound, lo, "shared-bounds:caller-edit:min-unchanged")
        _same(ctx, p1.max_bound, hi, "shared-bounds:caller-edit:max-unchanged")
    else:
        ctx.check(len(raw) == 2, "shared-bounds:callers-container-keeps-its-length")
        _same(ctx, raw[0], lo, f"shared-bounds:{op}:callers-container-unchanged")
        _same(ctx, raw[1], hi, f"shared-bounds:{op}:callers-container-unchanged")


def harnesses(tier):
    return [
        ("bounds-step", h_bounds_step, bounds_cases(tier)),
        ("shared-bounds", h_shared_bounds, [dict(container=c, op=o) for c in ("list", "tuple") for o in ("min", "max", "caller-edit")]),
        ("live", h_live, live_cases(tier)),
        ("live.raw", h_live, [c for c in live_cases(tier) if c["where"] in ("plain", "group") and not c.get("rewrite")], dict(raw=True)),
        ("zero-loss-parameter", h_zero_loss_param, [dict(via=v) for v in ("bs", "ps", "loss")]),
        ("invalid", h_invalid_value, [dict(which=w, side=s) for w in ("bs", "loss", "bs-loss") for s in ("below", "above")]),
    ]
