"""C16 -- process tomography and gate fidelity agree with the library's own references."""
import itertools

import numpy as _np

from . import ref

PROPERTY = "C16"
LEVEL = "model_checking"
FUNCTIONS = [
    "lightworks.tomography.process_tomography.ProcessTomography._create_circuit_and_input/_run_required_experiments", "lightworks.tomography.mappings.INPUT_MAPPING/MEASUREMENT_MAPPING/RHO_MAPPING/PAULI_MAPPING",
    "lightworks.tomography.process_tomography_li.LIProcessTomography.process/_calculate_expectation_values", "lightworks.tomography.utils.choi_from_unitary/_vec/_unvec/_calculate_expectation_value/_calculate_density_matrix/_combine_all*",
    "lightworks.tomography.gate_fidelity.GateFidelity.process/_calculate_alpha_and_u_basis",
    "lightworks.tomography.process_tomography_mle.MLETomographyAlgorithm._a_mat/_n_vec_from_data/_tp_proj (kernels only)",
]
ASSUMPTIONS = [
    "A-REAL; A-LOADER; A-EXT",
    "the process is Unitary(V) with V a 2x2 unitary with three symbolic angles (every single-qubit unitary up to a global phase, which the Choi matrix does not see); thorough adds V1 (x) V2 on two qubits; the experiment callback returns exact outcome probabilities computed from the received circuit and input state by the reference Fock amplitude",
    "np.linalg.pinv / np.linalg.solve act on constant Gaussian-rational matrices only: computed numerically, rationalised and certified exactly (four Penrose identities / A x = b in integer arithmetic) before use",
]
BOUNDS = {"quick": "one qubit: LI, gate fidelity (second symbolic unitary as target, and target = V; three successive process() calls on one object), MLE forward model and TP projection", "thorough": "adds two qubits: V1 (x) V2 for LI and gate fidelity, and CZ.(V1 (x) 1) through the library's post-selected CZ for LI"}
OUTSIDE = ("NOT ENCODABLE: the MLE projected-gradient descent (np.linalg.eigh in _cp_proj, data-dependent stopping) - therefore 'MLE returns a positive, trace-preserving Choi matrix with fidelity >= 0.99'; "
           "fidelity() of both classes (scipy.linalg.sqrtm). Only the MLE forward model and its TP projection are decided.")
STUBS = ["experiment callback -> exact outcome probabilities from the received circuits", "np.linalg.pinv/solve -> certified exact results on constant matrices"]


def _bits(n):
    return list(itertools.product((0, 1), repeat=n))


def _dual(bits):
    out = []
    for b in bits:
        out += [1, 0] if b == 0 else [0, 1]
    return out


def _make_callback(ctx, n, calls):
    lw = ctx.lw

    def experiment(circuits, inputs, *args):
        calls.append((len(circuits), len(inputs)))
        out = []
        for ci, (c, st) in enumerate(zip(circuits, inputs)):
            U = c.U_full
            her = c.heralds
            full_in = ref.insert_heralds(list(st.s), her["input"])
            res = {}
            order = _bits(n)
            if ci % 2:
                order = list(reversed(order))
            tot = 0
            for bits in order:
                o = _dual(bits)
                a = ref.fock_amp(ctx, U, full_in, ref.insert_heralds(o, her["output"]))
                res[lw.State(o)] = ctx.m.abs2(a)
                tot = tot + res[lw.State(o)]
            if her["input"]:
                # post-selected / heralded gate: condition on one photon per qubit
                res = {k: v / tot for k, v in res.items()}
            out.append(res)
        return out
    return experiment


def _process(ctx, n, tag="", kind="product"):
    """(circuit, qubit-space unitary) of the process under test"""
    lw = ctx.lw
    if kind == "cz":
        # CZ . (V1 (x) 1) through the library's post-selected CZ (ancilla modes present)
        V1 = ctx.unitary2(tag + "V")
        c = lw.Circuit(4)
        c.add(lw.Unitary(V1), 0)
        c.add(lw.qubit.CZ(), 0)
        K = _np.empty((4, 4), dtype=object)
        for i in range(2):
            for j in range(2):
                for k in range(2):
                    for l in range(2):
                        v = V1[i, j] * (1 if k == l else 0)
                        K[2 * i + k, 2 * j + l] = -v if (i == 1 and k == 1) else v
        return c, K
    if n == 1:
        V = ctx.unitary2(tag + "V")
        return lw.Unitary(V), V
    V1, V2 = ctx.unitary2(tag + "V"), ctx.unitary2(tag + "W")
    c = lw.Circuit(4)
    c.add(lw.Unitary(V1), 0)
    c.add(lw.Unitary(V2), 2)
    K = _np.empty((4, 4), dtype=object)
    for i in range(2):
        for j in range(2):
            for k in range(2):
                for l in range(2):
                    K[2 * i + k, 2 * j + l] = V1[i, j] * V2[k, l]
    return c, K


def h_li(ctx, n, kind="product"):
    lw = ctx.lw
    base, V = _process(ctx, n, kind=kind)
    calls = []
    obs = (base.n_modes, len(base._get_circuit_spec()))
    tomo = lw.tomography.LIProcessTomography(n, base, _make_callback(ctx, n, calls))
    choi = tomo.process()
    want = lw.tomography.choi_from_unitary(V)
    ctx.check(len(calls) == 1 and calls[0][0] == calls[0][1] == (4 ** n) * (3 ** n), "li:callback-called-once-with-4^n*3^n-experiments", {"calls": calls})
    ctx.check_eq(choi, want, "li:choi-equals-choi_from_unitary")
    ctx.check((base.n_modes, len(base._get_circuit_spec())) == obs, "li:base-circuit-unchanged")


def h_gate_fidelity(ctx, n, same):
    lw = ctx.lw
    base, V = _process(ctx, n)
    if same:
        T = V
    else:
        _, T = _process(ctx, n, "t")
    calls = []
    gf = lw.tomography.GateFidelity(n, base, _make_callback(ctx, n, calls))
    f = gf.process(T)
    d = 2 ** n
    tr = 0
    for i in range(d):
        for j in range(d):
            tr = tr + ctx.m.conj(T[j, i]) * V[j, i]
    want_num = ctx.m.abs2(tr) + d
    ctx.check_eq(f * (d * (d + 1)), want_num, "gate-fidelity:average-gate-fidelity-formula")
    if same:
        ctx.check_eq(f, 1, "gate-fidelity:one-when-target-equals-process")
    ctx.check_eq(gf.fidelity, f, "gate-fidelity:attribute")
    # the same object asked again - for the same target and then for the process itself - answers
    # each question on its own (nothing of an earlier call may enter a later one)
    f2 = gf.process(T)
    ctx.check_eq(f2 * (d * (d + 1)), want_num, "gate-fidelity:second-call:average-gate-fidelity-formula")
    f3 = gf.process(V)
    ctx.check_eq(f3, 1, "gate-fidelity:later-call:one-when-target-equals-process")
    ctx.check_eq(gf.fidelity, f3, "gate-fidelity:attribute-follows-the-last-call")


def h_mle_forward(ctx):
    """the MLE forward model applied to choi_from_unitary(V) reproduces the data the experiment yields for V"""
    lw = ctx.lw
    from lightworks.tomography.process_tomography_mle import MLEProcessTomography, MLETomographyAlgorithm
    from lightworks.tomography.utils import _calculate_expectation_value, _combine_all, _vec
    import lightworks.tomography.process_tomography_mle as mm
    n = 1
    base, V = _process(ctx, n)
    calls = []
    tomo = MLEProcessTomography(n, base, _make_callback(ctx, n, calls))
    all_inputs = _combine_all(mm.TOMO_INPUTS, n)
    results = tomo._run_required_experiments(all_inputs)
    nij = {}
    for (in_state, meas), result in results.items():
        if meas == ",".join("I" * n):
            continue
        nij[in_state, meas] = _calculate_expectation_value(meas, result)
    mle = MLETomographyAlgorithm(n)
    n_vec = mle._n_vec_from_data(nij)
    choi = lw.tomography.choi_from_unitary(V)
    # the real _p_vec, with its final clip(1e-8) made the identity ("before clipping"):
    # numpy's clip on symbolic entries would fork on each of the 36 outcomes
    if ctx.symbolic:
        clipped = []
        ctx.np.CLIP_HOOK[0] = lambda arr, lo, hi: (clipped.append((lo, hi)), arr)[1]
        try:
            p_vec = mle._p_vec(choi)
        finally:
            ctx.np.CLIP_HOOK[0] = None
        ctx.check(clipped == [(1e-8, None)], "mle:p_vec-clips-once-at-1e-8", {"clipped": clipped})
    else:
        p_vec = mle._p_vec(choi)
        n_vec = _np.clip(n_vec.real, 1e-8, None)
    # the likelihood is maximised where the modelled probabilities are proportional to the
    # measured frequencies (the two vectors carry different constant normalisations)
    tp = 0
    tn = 0
    for i in range(len(p_vec)):
        tp = tp + p_vec[i]
        tn = tn + n_vec[i]
    ctx.check_eq(p_vec * tn, n_vec * tp, "mle:forward-model-of-choi_from_unitary-reproduces-the-measured-frequencies")


def h_mle_tp(ctx):
    lw = ctx.lw
    from lightworks.tomography.process_tomography_mle import MLETomographyAlgorithm
    mle = MLETomographyAlgorithm(1)
    X = ctx.m.zeros((4, 4))
    for i in range(4):
        X[i, i] = ctx.real(f"x{i}")
        for j in range(i + 1, 4):
            a, b = ctx.real(f"xa{i}{j}"), ctx.real(f"xb{i}{j}")
            X[i, j] = a + ctx.m.I * b
            X[j, i] = a - ctx.m.I * b
    Y = mle._tp_proj(X)
    # Choi matrices are indexed (output, input) as in choi_from_unitary: trace preservation
    # is tr_output(C) = identity on the input, i.e. sum_a C[(a,i),(a,j)] = delta_ij
    for i in range(2):
        for j in range(2):
            t = 0
            for a in range(2):
                t = t + Y[2 * a + i, 2 * a + j]
            ctx.check_eq(t, 1 if i == j else 0, "mle:tp-projection-has-identity-partial-trace-over-the-output")
    ctx.check_eq(Y, ctx.m.dagger(Y), "mle:tp-projection-keeps-hermiticity")


def harnesses(tier):
    ns = (1,) if tier == "quick" else (1, 2)
    return [
        ("li", h_li, [dict(n=n) for n in ns] + ([dict(n=2, kind="cz")] if tier != "quick" else []), dict(max_seconds=3000)),
        ("gate-fidelity", h_gate_fidelity, [dict(n=n, same=s) for n in ns for s in (False, True)], dict(max_seconds=3000)),
        ("li.raw", h_li, [dict(n=1)], dict(raw=True)),
        ("gate-fidelity.raw", h_gate_fidelity, [dict(n=1, same=False)], dict(raw=True)),
        ("mle-forward-model", h_mle_forward, [dict()]),
        ("mle-tp-projection", h_mle_tp, [dict()]),
    ]
