"""C18 -- states behave as immutable Fock states; herald bookkeeping round-trips."""
PROPERTY = "C18"
LEVEL = "model_checking"
FUNCTIONS = [
    "lightworks.sdk.state.state.State (all methods)", "lightworks.emulator.state.annotated_state.AnnotatedState (all methods)",
    "lightworks.sdk.utils.heralding_utils.add_heralds_to_state/remove_heralds_from_state",
    "lightworks.emulator.utils.state_utils.fock_basis", "lightworks.sdk.utils.random_utils.process_random_seed",
    "lightworks.sdk.utils.conversion.db_loss_to_decimal/decimal_to_db_loss (symx, modulo log/exp axioms)",
]
ASSUMPTIONS = [
    "CrossHair models Python ints/lists/dicts faithfully; every counterexample is replayed on plain CPython",
    "hash() is not called on symbolic strings: equality of str() (the hash input) is asserted instead",
    "dB conversion: 10**y and log10 are uninterpreted, constrained by log10(10^y)=y, 10^(log10 z)=z (z>0), 10^y>0 and monotonicity around 1",
]
BOUNDS = {
    "quick": "occupation lists of length <=4 with occupations 0..4; annotated states: three labels in 0..2 in three fixed mode partitions, pairwise; slices with bounds in -3..3 on lists of length <=3; <=2 heralds with values 0..2 on states of <=3 modes; fock_basis N<=4, n<=4; any int seed, bool and None",
    "thorough": "same bounds with longer per-condition time budgets",
}
OUTSIDE = "float seeds (CrossHair cannot confirm conditions over floats); random_unitary / random_permutation (one-line delegations to scipy/numpy RNGs - nothing to encode); float occupations; aliasing of the list handed to State() by the caller; longer lists"
STUBS = []

_CONDS = ["_eq_iff", "_concat", "_merge", "_slice_and_copy", "_immutable", "_iadd_rebinds", "_annotated", "_annotated_ops", "_annotated_immutable", "_herald_roundtrip", "_fock_basis", "_seed_int", "_seed_bool_none"]


def xh_conditions(tier):
    t = 160 if tier == "quick" else 240
    return [dict(name=f"states.{c}", file="xh/c18_states.py", func=c, timeout=t, prop="C18") for c in _CONDS]


def h_db(ctx, direction):
    from lightworks.sdk.utils import conversion
    if direction == "db->dec->db":
        x = ctx.real("x")
        d = conversion.db_loss_to_decimal(x)
        try:
            back = conversion.decimal_to_db_loss(d)
        except ValueError as e:
            ctx.fail("every-db-value-converts-back", repr(e)[:80])
            return
        want = -x if (x < 0) else x
        ctx.check_eq(back, want, "db-decimal-db-roundtrip-returns-abs")
        ctx.check((d >= 0) & (d < 1) if ctx.symbolic else (0 <= d < 1), "decimal-loss-in-range")
    else:
        l = ctx.real("l", 0, None)
        ctx.assume(l < 1)
        try:
            db = conversion.decimal_to_db_loss(l)
        except ValueError as e:
            ctx.fail("every-loss-in-[0,1)-is-accepted", repr(e)[:80])
            return
        ctx.check(db >= 0, "db-loss-positive")
        back = conversion.db_loss_to_decimal(db)
        ctx.check_eq(back, l, "decimal-db-decimal-roundtrip")
        back2 = conversion.db_loss_to_decimal(-db)
        ctx.check_eq(back2, l, "negative-db-accepted")


def h_db_reject(ctx, side):
    from lightworks.sdk.utils import conversion
    l = ctx.real("l")
    ctx.assume(l < 0 if side == "neg" else l >= 1)
    try:
        conversion.decimal_to_db_loss(l)
    except ValueError:
        ctx.check(True, "out-of-range-rejected")
        return
    ctx.fail("out-of-range-rejected")


def harnesses(tier):
    return [
        ("db", h_db, [dict(direction="db->dec->db"), dict(direction="dec->db->dec")]),
        ("db-reject", h_db_reject, [dict(side="neg"), dict(side="ge1")]),
    ]
