"""Independent reference oracles, written from the documentation, number-type
generic (work on symbolic scalars and on floats through ctx.m)."""
import itertools
import math

import numpy as _np


def mat(ctx, n, m=None):
    z = ctx.m.zeros((n, n if m is None else m))
    return z


def eye(ctx, n):
    return ctx.m.eye(n)


def matmul(ctx, a, b):
    """explicit triple loop (independent of numpy's object-array matmul)."""
    n, k = a.shape
    k2, m = b.shape
    assert k == k2
    out = ctx.m.zeros((n, m))
    for i in range(n):
        for j in range(m):
            tot = 0
            for l in range(k):
                x, y = a[i, l], b[l, j]
                if (type(x) is int and x == 0) or (type(y) is int and y == 0):
                    continue
                tot = tot + x * y
            out[i, j] = tot
    return out


def pad_identity(ctx, M, extra=1):
    k = M.shape[0]
    out = eye(ctx, k + extra)
    out[:k, :k] = M
    return out


def embed_bs(ctx, N, m1, m2, r, convention):
    """documented beam splitter: Rx [[sqrt r, i sqrt(1-r)],[i sqrt(1-r), sqrt r]],
    H [[sqrt r, sqrt(1-r)],[sqrt(1-r), -sqrt r]] on (m1, m2)."""
    s = ctx.m.sqrt
    E = eye(ctx, N)
    a, b = s(r), s(1 - r)
    if convention == "Rx":
        E[m1, m1] = a
        E[m1, m2] = ctx.m.I * b
        E[m2, m1] = ctx.m.I * b
        E[m2, m2] = a
    else:
        E[m1, m1] = a
        E[m1, m2] = b
        E[m2, m1] = b
        E[m2, m2] = -a
    return E


def embed_ps(ctx, N, m, phi):
    E = eye(ctx, N)
    E[m, m] = ctx.m.expi(phi)
    return E


def embed_loss_block(ctx, N, m, lam):
    """loss as the amplitude factor sqrt(1-loss) on its mode (real-mode block)."""
    E = eye(ctx, N)
    E[m, m] = ctx.m.sqrt(1 - lam)
    return E


def embed_swaps(ctx, N, swaps):
    """mode i -> mode swaps[i]: P[j, i] = 1."""
    E = ctx.m.zeros((N, N))
    for i in range(N):
        E[swaps.get(i, i), i] = 1
    return E


def embed_block(ctx, N, off, A):
    E = eye(ctx, N)
    k = A.shape[0]
    for i in range(k):
        for j in range(k):
            E[off + i, off + j] = A[i, j]
    return E


def is_unitary_residuals(ctx, U):
    """entries of U^dagger U - I"""
    P = matmul(ctx, ctx.m.dagger(U), U)
    n = U.shape[0]
    I = eye(ctx, n)
    return P, I


def perm_def(M):
    """permanent by the permutation sum (definition)."""
    n = M.shape[0]
    if n == 0:
        return 1
    tot = 0
    for p in itertools.permutations(range(n)):
        t = 1
        zero = False
        for i in range(n):
            e = M[i, p[i]]
            if type(e) is int and e == 0:
                zero = True
                break
            t = t * e
        if not zero:
            tot = tot + t
    return tot


def fock_amp(ctx, U, inp, out):
    """<out| U |inp> for Fock states (lists over all modes of U):
    perm(U[rows(out), cols(inp)]) / sqrt(prod n!)."""
    rows = [i for i, n in enumerate(out) for _ in range(n)]
    cols = [i for i, n in enumerate(inp) for _ in range(n)]
    if len(rows) != len(cols):
        return 0
    k = len(rows)
    M = _np.empty((k, k), dtype=object)
    for a, i in enumerate(rows):
        for b, j in enumerate(cols):
            M[a, b] = U[i, j]
    f = 1
    for n in list(inp) + list(out):
        f *= math.factorial(n)
    return perm_def(M) / ctx.m.sqrt(f) if f != 1 else perm_def(M)


def fock_states(n_modes, n_photons):
    if n_modes == 0:
        return [[]] if n_photons == 0 else []
    out = []
    for k in range(n_photons, -1, -1):
        for rest in fock_states(n_modes - 1, n_photons - k):
            out.append([k] + rest)
    return out


def insert_heralds(state, heralds):
    """state over non-herald modes + {mode: n} -> full list (own code)."""
    n = len(state) + len(heralds)
    it = iter(state)
    return [heralds[i] if i in heralds else next(it) for i in range(n)]


def user_to_full(n_full, herald_modes):
    """list: user mode j -> full mode"""
    return [i for i in range(n_full) if i not in herald_modes]
