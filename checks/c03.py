"""C03 -- simulator amplitudes are the bosonic Fock-space amplitudes."""
import itertools

import numpy as _np

from . import ref

PROPERTY = "C03"
LEVEL = "model_checking"
FUNCTIONS = [
    "lightworks.emulator.simulation.simulator.Simulator.simulate/_process_inputs/_process_outputs",
    "lightworks.emulator.backend.backend.Backend.probability_amplitude",
    "lightworks.emulator.backend.permanent.Permanent.calculate/partition",
    "lightworks.sdk.utils.heralding_utils.add_heralds_to_state",
    "lightworks.emulator.utils.state_utils.fock_basis",
    "lightworks.sdk.state.state.State._validate",
    "lightworks.emulator.results.simulation_result.SimulationResult.__init__/__getitem__",
    "compile path of C01 (Circuit.loss/herald/_build_process, CompiledCircuit.add/add_herald)",
]
ASSUMPTIONS = [
    "A-REAL; A-LOADER; A-EXT",
    "thewalrus.perm is trusted to return the permanent: stubbed by a definitional row-expansion permanent (the reference uses the permutation sum - different code)",
    "the symbolic unitary block is written into the UnitaryMatrix component directly (check_unitary bypassed): the amplitude identity does not depend on unitarity",
]
BOUNDS = {
    "quick": "(2 modes: up to 4 photons) n<=3 visible modes + <=2 heralds (photon numbers 0..2, in != out allowed) + <=2 loss elements, inputs with <=3 photons (bunched, vacuum), explicit and generated output lists, lists that repeat a state, heralds declared on the circuit after the Simulator was created and used, circuits whose two modes are both heralded; unit-vector: 4 lossless layouts of symbolic bs/ps on <=3 modes, <=2 photons",
    "thorough": "n<=4 visible modes, <=4 photons in total; unit-vector up to 3 photons",
}
OUTSIDE = "thewalrus itself; photon numbers above the bound; float rounding; validation of malformed states is decided by the CrossHair conditions xh/c03_validation.py"
STUBS = ["thewalrus.perm -> definitional permanent over the scalar ring"]


def _mk_circuit(ctx, n_full, heralds, n_loss):
    """Circuit over n_full modes with a symbolic block, loss elements and heralds."""
    lw = ctx.lw
    A = ctx.cmatrix("A", n_full)
    c = lw.Unitary(ctx.np.identity(n_full))
    spec = c._Circuit__circuit_spec[0]
    spec.unitary = A
    for i in range(n_loss):
        c.loss(i % n_full, ctx.real(f"lam{i}", 0, 1))
    for (p, hi, ho) in heralds:
        c.herald(p, hi, ho)
    return c


def h_amplitudes(ctx, n_full, heralds, n_loss, kmax, explicit):
    lw = ctx.lw
    sim = None
    if explicit == "late-heralds":
        # the Simulator is created (and used once) while the circuit has no heralds yet; the heralds are
        # then declared on the same circuit object: every simulate call is about the circuit as it is now
        c = _mk_circuit(ctx, n_full, [], n_loss)
        sim = lw.emulator.Simulator(c)
        sim.simulate(lw.State([1] + [0] * (n_full - 1)))
        for (p_, hi_, ho_) in heralds:
            c.herald(p_, hi_, ho_)
    else:
        c = _mk_circuit(ctx, n_full, heralds, n_loss)
    n_in = n_full - len(heralds)
    ctx.check(c.input_modes == n_in, "input_modes")
    h_in = {hi: p for (p, hi, ho) in heralds}
    h_out = {ho: p for (p, hi, ho) in heralds}
    hp = sum(h_in.values())
    k = ctx.choice("photons", [k for k in range(0, kmax - hp + 1) if n_in > 0 or k == 0])
    ins = ref.fock_states(n_in, k)
    if explicit == "duplicates":
        # the same state listed twice among the inputs and among the outputs
        i1 = ctx.choice("in1", list(range(len(ins))))
        inputs = [lw.State(ins[i1]), lw.State(ins[(i1 + 1) % len(ins)]), lw.State(ins[i1])]
    elif explicit == "two-inputs" and len(ins) >= 2:
        i1 = ctx.choice("in1", list(range(len(ins))))
        i2 = ctx.choice("in2", [j for j in range(len(ins)) if j != i1])
        inputs = [lw.State(ins[i1]), lw.State(ins[i2])]
    else:
        inp = ctx.choice("input", ins)
        inputs = lw.State(inp) if explicit != "list1" else [lw.State(inp)]
    outs_all = ref.fock_states(n_in, k)
    exp_outs = None
    if explicit == "duplicates":
        exp_outs = [outs_all[0], outs_all[-1], outs_all[0]] + outs_all[1:]
        outputs = [lw.State(o) for o in exp_outs]
    elif explicit == "explicit":
        # an explicit output list in a different order
        exp_outs = list(reversed(outs_all))
        outputs = [lw.State(o) for o in exp_outs]
    elif explicit == "single-output":
        outputs = lw.State(ctx.choice("output", outs_all))
    else:
        outputs = None
    if sim is None:
        sim = lw.emulator.Simulator(c)
    try:
        res = sim.simulate(inputs, outputs)
    except Exception as e:  # noqa: BLE001
        ctx.fail("well-formed-states-are-computed-not-rejected", f"{type(e).__name__}: {e}"[:120])
        return
    U = c.U_full
    ctx.check(U.shape[0] == n_full + n_loss, "U_full-size")
    in_list = inputs if isinstance(inputs, list) else [inputs]
    ctx.check(len(res.inputs) == len(in_list), "result-inputs-length")
    got_outs = [o.s for o in res.outputs]
    if exp_outs is not None:
        ctx.check(got_outs == exp_outs, "outputs-are-the-given-list-in-its-order")
        ctx.check(res.array.shape == (len(in_list), len(exp_outs)), "array-has-one-row-per-input-and-one-column-per-output")
    else:
        ctx.check(sorted(got_outs) == sorted(outs_all) if explicit not in ("single-output",) else len(got_outs) == 1, "outputs-are-the-full-fock-basis")
    for i, st in enumerate(in_list):
        fin = ref.insert_heralds(st.s, h_in) + [0] * n_loss
        for j, o in enumerate(res.outputs):
            fout = ref.insert_heralds(o.s, h_out) + [0] * n_loss
            want = ref.fock_amp(ctx, U, fin, fout)
            ctx.check_eq(res.array[i, j], want, "array-entry-is-fock-amplitude")
            ctx.check_eq(res[st, o], want, "pair-index-is-fock-amplitude")


def amp_cases(tier):
    out = []
    kmax = 3 if tier == "quick" else 4
    herald_sets = {
        # the last two: every mode heralded (no user modes, the only state is the empty one)
        2: [[], [(0, 0, 0)], [(1, 1, 0)], [(1, 0, 1)], [(2, 1, 1)], [(1, 0, 1), (0, 1, 0)], [(1, 0, 0), (1, 1, 1)]],
        3: [[], [(1, 0, 0)], [(0, 2, 0)], [(1, 1, 2)], [(2, 0, 1)], [(1, 0, 2), (1, 2, 0)], [(0, 1, 1), (1, 0, 2)]],
        4: [[], [(1, 3, 0)], [(1, 0, 0), (0, 3, 2)], [(1, 1, 2), (1, 2, 3)], [(2, 3, 1)]],
        5: [[(1, 0, 4), (1, 2, 1)], [(0, 4, 0), (1, 1, 1)]],
    }
    sizes = [2, 3, 4] if tier == "quick" else [2, 3, 4, 5]
    for n_full in sizes:
        for hs in herald_sets[n_full]:
            n_in = n_full - len(hs)
            if n_in > (3 if tier == "quick" else 4):
                continue
            for n_loss in (0, 1, 2):
                if tier == "quick" and n_full >= 4 and n_loss == 2:
                    continue
                modes = ["all-outputs"]
                if n_loss == 0:
                    modes += ["explicit", "list1", "two-inputs", "single-output", "duplicates"]
                if hs and n_in > 0 and n_loss <= 1:
                    modes += ["late-heralds"]
                for explicit in modes:
                    km = kmax if n_full <= 3 else min(kmax, 3)
                    if n_full == 2 and not hs and n_loss == 0:
                        km = 4  # several modes sharing an occupation >= 2 need four photons
                    out.append(dict(n_full=n_full, heralds=hs, n_loss=n_loss, kmax=km, explicit=explicit))
    return out


LAYOUTS = {
    "bs": [("bs", 0, 1, "Rx")],
    "mzi": [("bs", 0, 1, "Rx"), ("ps", 0), ("bs", 0, 1, "H")],
    "tritter": [("bs", 0, 1, "Rx"), ("ps", 1), ("bs", 1, 2, "Rx"), ("bs", 0, 1, "H")],
    "far": [("bs", 0, 2, "H"), ("ps", 2), ("bs", 2, 1, "Rx"), ("swap",)],
}


def h_unit_vector(ctx, layout, k):
    lw = ctx.lw
    comps = LAYOUTS[layout]
    n = 2 if layout in ("bs", "mzi") else 3
    c = lw.Circuit(n)
    for i, cp in enumerate(comps):
        if cp[0] == "bs":
            c.bs(cp[1], cp[2], reflectivity=ctx.real(f"r{i}", 0, 1), convention=cp[3])
        elif cp[0] == "ps":
            c.ps(cp[1], ctx.angle(f"p{i}"))
        else:
            c.mode_swaps({0: 1, 1: 2, 2: 0})
    inp = ctx.choice("input", ref.fock_states(n, k))
    res = lw.emulator.Simulator(c).simulate(lw.State(inp))
    tot = 0
    for j in range(len(res.outputs)):
        tot = tot + ctx.m.abs2(res.array[0, j])
    ctx.check_eq(tot, 1, "lossless-amplitudes-form-a-unit-vector")


def unit_cases(tier):
    out = []
    for layout in LAYOUTS:
        for k in ((1, 2) if tier == "quick" else (1, 2, 3)):
            out.append(dict(layout=layout, k=k))
    return out


def xh_conditions(tier):
    t = 150 if tier == "quick" else 500
    return [dict(name=f"validation.{c}", file="xh/c03_validation.py", func=c, timeout=t, prop="C03") for c in ("_ints", "_outputs", "_types", "_two_inputs_photon_numbers")] + [
        # amplitudes of bunched states up to 18 photons: machine-integer behaviour of the factorial normalisation
        dict(name="norm._bunched_simulator", file="xh/c04_norm.py", func="_bunched_simulator", timeout=t, prop="C03")]


def harnesses(tier):
    return [
        ("amplitudes", h_amplitudes, amp_cases(tier)),
        ("unit-vector", h_unit_vector, unit_cases(tier)),
        ("unit-vector.raw", h_unit_vector, [c for c in unit_cases(tier) if c["k"] <= 2], dict(raw=True)),
    ]
