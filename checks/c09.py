"""C09 -- circuit rewrites preserve the transformation."""
import itertools

from . import ref

PROPERTY = "C09"
LEVEL = "model_checking"
FUNCTIONS = [
    "lightworks.sdk.circuit.circuit.Circuit.unpack_groups/compress_mode_swaps/remove_non_adjacent_bs/copy/_freeze_params",
    "lightworks.sdk.circuit.circuit_utils.unpack_circuit_spec/compress_mode_swaps/combine_mode_swap_dicts/convert_non_adj_beamsplitters",
    "compile path of C01 (to compare U_full before/after)",
]
ASSUMPTIONS = [
    "A-REAL; A-LOADER; A-EXT",
    "equality of U_full, heralds and input_modes implies equality of every heralded transition amplitude (they are functions of these only)",
]
BOUNDS = {
    "quick": "Circuit(4) programs of 3 components (first component and a swap-heavy prefix fixed per case, the others chosen by forks from a 12-entry menu incl. non-adjacent bs in both orders/conventions, loss, barriers, unitary blocks, plain and heralded groups, nested group), all parameters symbolic; the 5 rewrites singly and all 20 ordered pairs of distinct rewrites; each rewrite on a circuit whose loss Parameter (value 0 or symbolic, between two swaps) is changed after the rewrite",
    "thorough": "programs of 4 components",
}
OUTSIDE = "swap algebra: permutations of 4 modes, non-adjacent pairs within modes 0..6 (CrossHair conditions xh/c09_swaps.py); circuits with more modes/components than the bound; rewrites applied more than twice in sequence"
STUBS = []

REWRITES = ["unpack_groups", "compress_mode_swaps", "remove_non_adjacent_bs", "copy", "copy_frozen"]

MENU = ["bs_adj_Rx", "bs_far_H", "bs_far_rev_H", "bs_far_rev_Rx", "ps", "loss", "swap_a", "swap_b", "barrier", "unitary", "group_plain", "group_heralded", "group_nested", "swap_c"]


def _apply(ctx, c, kind, tag):
    lw = ctx.lw
    n = c.input_modes
    if kind == "bs_adj_Rx":
        c.bs(1, 2, reflectivity=ctx.real(tag + "r", 0, 1))
    elif kind == "bs_far_H":
        c.bs(0, 3 if n > 3 else 2, reflectivity=ctx.real(tag + "r", 0, 1), convention="H")
    elif kind == "bs_far_rev_H":
        c.bs(3 if n > 3 else 2, 0, reflectivity=ctx.real(tag + "r", 0, 1), convention="H")
    elif kind == "bs_far_rev_Rx":
        c.bs(2, 0, reflectivity=ctx.real(tag + "r", 0, 1), convention="Rx")
    elif kind == "ps":
        c.ps(ctx.choice(tag + "m", [0, 2]), ctx.angle(tag + "phi"))
    elif kind == "loss":
        c.loss(1, ctx.real(tag + "lam", 0, 1))
    elif kind == "swap_a":
        c.mode_swaps({0: 1, 1: 0})
    elif kind == "swap_b":
        c.mode_swaps({0: 2, 2: 1, 1: 0})
    elif kind == "swap_c":
        c.mode_swaps({2: 3, 3: 2} if n > 3 else {1: 2, 2: 1})
    elif kind == "barrier":
        c.barrier([0, 1])
    elif kind == "unitary":
        c.add(lw.Unitary(ctx.unitary2(tag + "A")), ctx.choice(tag + "off", [0, 2 if n > 3 else 1]))
    elif kind == "group_plain":
        g = lw.Circuit(3)
        g.bs(0, 2, reflectivity=ctx.real(tag + "r", 0, 1), convention="H")
        g.mode_swaps({0: 1, 1: 0})
        g.ps(2, ctx.angle(tag + "phi"))
        c.add(g, ctx.choice(tag + "at", [0, 1] if n > 3 else [0]), group=True)
    elif kind == "group_heralded":
        g = lw.Circuit(3)
        g.bs(2, 0, reflectivity=ctx.real(tag + "r", 0, 1))
        g.mode_swaps({1: 2, 2: 1})
        g.herald(0, 1)
        c.add(g, ctx.choice(tag + "at", [0, 1, 2]))
    elif kind == "group_nested":
        i1 = lw.Circuit(2)
        i1.mode_swaps({0: 1, 1: 0})
        i1.bs(0, reflectivity=ctx.real(tag + "r", 0, 1))
        g = lw.Circuit(3)
        g.add(i1, 1, group=True)
        g.bs(2, 0, reflectivity=ctx.real(tag + "r2", 0, 1), convention="H")
        c.add(g, 0, group=True)
    else:
        raise AssertionError(kind)


def _rewrite(c, rw):
    if rw == "copy":
        return c.copy()
    if rw == "copy_frozen":
        return c.copy(freeze_parameters=True)
    getattr(c, rw)()
    return c


def _walk(spec, Group):
    for s in spec:
        yield s
        if isinstance(s, Group):
            yield from _walk(s.circuit_spec, Group)


def _count(spec):
    return len(spec)


def _structure(ctx, c, applied, label, before_len):
    from lightworks.sdk.circuit.components import BeamSplitter, Group
    spec = c._get_circuit_spec()
    if "unpack_groups" in applied[-1:]:
        ctx.check(not any(isinstance(s, Group) for s in spec), label + ":no-group-remains")
    if applied[-1] == "remove_non_adjacent_bs":
        ctx.check(all(abs(s.mode_1 - s.mode_2) == 1 for s in _walk(spec, Group) if isinstance(s, BeamSplitter)), label + ":no-non-adjacent-beam-splitter-at-any-depth")
    if applied[-1] == "compress_mode_swaps":
        ctx.check(len(spec) <= before_len, label + ":component-count-not-increased")


def _ids(c):
    """ids of every component object and swap dict reachable from the live spec"""
    from lightworks.sdk.circuit.components import Group, ModeSwaps
    out = {}
    for s in _walk(c._Circuit__circuit_spec, Group):
        out[id(s)] = s
        if isinstance(s, ModeSwaps):
            out[id(s.swaps)] = s.swaps
        if isinstance(s, Group):
            out[id(s.circuit_spec)] = s.circuit_spec
            out[id(s.heralds)] = s.heralds
    return out


def h_rewrites(ctx, prefix, length):
    lw = ctx.lw
    c = lw.Circuit(4)
    for i, k in enumerate(prefix):
        _apply(ctx, c, k, f"p{i}")
    for i in range(length - len(prefix)):
        k = ctx.choice(f"k{i}", MENU)
        _apply(ctx, c, k, f"c{i}")
    base_U = c.U_full
    base_h = c.heralds
    base_in = c.input_modes
    base_n = c.n_modes
    base_spec_len = len(c._get_circuit_spec())
    seqs = [(a,) for a in REWRITES] + [p for p in itertools.permutations(REWRITES, 2)]
    for seq in seqs:
        label = "+".join(seq)
        w = c.copy()
        orig_ids = _ids(w)
        for step, rw in enumerate(seq):
            blen = len(w._get_circuit_spec())
            w2 = _rewrite(w, rw)
            if rw in ("compress_mode_swaps", "remove_non_adjacent_bs", "copy_frozen") and step == 0:
                new_ids = _ids(w2)
                shared = [k for k in new_ids if k in orig_ids and new_ids[k] is orig_ids[k]]
                ctx.check(not shared, f"{rw}:shares-no-mutable-structure-with-the-original")
            w = w2
            _structure(ctx, w, seq[: step + 1], label, blen)
        ctx.check(w.n_modes == base_n and w.input_modes == base_in, label + ":mode-counts-unchanged")
        ctx.check(w.heralds == base_h, label + ":heralds-unchanged")
        ctx.check_eq(w.U_full, base_U, label + ":U_full-unchanged")
    # the source circuit is untouched by everything above
    ctx.check_eq(c.U_full, base_U, "source:U_full-unchanged")
    ctx.check(len(c._get_circuit_spec()) == base_spec_len and c.heralds == base_h, "source:spec-unchanged")


def h_param_after_rewrite(ctx, rw, where, v0):
    """a rewrite preserves the transformation of the circuit, not only its matrix at the moment of the rewrite:
    the rewritten (non-frozen) circuit keeps following its Parameters, so after a Parameter is changed it still
    equals the un-rewritten circuit at the new value.  v0 = 0 is the value at which a loss element is an identity."""
    lw = ctx.lw
    v1 = ctx.real("v1", 0, 1)
    start = 0 if v0 == "zero" else ctx.real("v0", 0, 1)

    def build(val):
        c = lw.Circuit(3)
        c.mode_swaps({0: 1, 1: 0})
        if where == "loss":
            c.loss(1, val)
        elif where == "ps-loss":
            c.ps(1, ctx.angle("phi"), loss=val)
        else:
            c.bs(0, 2, reflectivity=ctx.m.frac(1, 3), convention="H", loss=val)
        c.mode_swaps({1: 2, 2: 1})
        c.bs(0, 2, reflectivity=ctx.m.frac(1, 4))
        return c
    # the reference is the same program built afresh around its own Parameter (a plain loss of 0 would
    # add no loss element at all, so the matrices would differ in size for a reason unrelated to rewrites)
    par = lw.Parameter(start)
    c = build(par)
    n0 = len(c._get_circuit_spec())
    out = _rewrite(c, rw)
    ctx.check_eq(out.U_full, build(lw.Parameter(start)).U_full, f"param-after:{rw}:U_full-unchanged")
    par.set(v1)
    if rw == "copy_frozen":
        ctx.check_eq(out.U_full, build(lw.Parameter(start)).U_full, f"param-after:{rw}:frozen-copy-keeps-the-old-value")
    else:
        ctx.check_eq(out.U_full, build(lw.Parameter(v1)).U_full, f"param-after:{rw}:U_full-follows-the-parameter-like-the-original")
    if rw == "compress_mode_swaps":
        ctx.check(len(out._get_circuit_spec()) <= n0, f"param-after:{rw}:components-not-grown")


def cases(tier):
    out = []
    if tier == "quick":
        for first in MENU:
            out.append(dict(prefix=[first], length=3))
    else:
        # length 4, the first two components fixed per case (better parallelism)
        for a in MENU:
            for b in MENU:
                out.append(dict(prefix=[a, b], length=4))
    # swap-heavy: two ModeSwaps separated by every kind of intermediate component
    for mid in MENU:
        out.append(dict(prefix=["swap_a", mid, "swap_b"], length=3 if tier == "quick" else 4))
        out.append(dict(prefix=["swap_c", mid, "swap_a"], length=3))
    return out


def xh_conditions(tier):
    t = 120 if tier == "quick" else 400
    return [dict(name=f"swaps.{c}", file="xh/c09_swaps.py", func=c, timeout=t, prop="C09") for c in (("_combine3", "_non_adjacent") if tier == "quick" else ("_combine3", "_combine", "_non_adjacent"))]


def harnesses(tier):
    pa = [dict(rw=r, where=w, v0=v) for r in REWRITES for w in ("loss", "ps-loss", "bs-loss") for v in ("zero", "symbolic")]
    return [("rewrites", h_rewrites, cases(tier), dict(max_paths=20000, max_seconds=1800)),
            ("param-after-rewrite", h_param_after_rewrite, pa)]
