"""C06 -- imperfect-source model: normalised mixture of distinguishable photon groups."""
import itertools
from fractions import Fraction

from . import ref

PROPERTY = "C06"
LEVEL = "model_checking"
FUNCTIONS = [
    "lightworks.emulator.components.source.Source setters/_build_statistics/_build_statistics_basic/_build_statistics_full/_full_distribution/_single_mode_distribution/_single_photon_distribution/_remap_distribution",
    "lightworks.emulator.components.source.group_empty_modes/purity_to_prob/quantity_check",
    "lightworks.emulator.simulation.probability_distribution.annotated_state_pdist_calc/pdist_calc",
    "lightworks.emulator.state.annotated_state.AnnotatedState",
    "lightworks.emulator.simulation.sampler.Sampler.probability_distribution (end to end on 2-mode circuits)",
]
ASSUMPTIONS = [
    "A-REAL; A-LOADER; A-EXT",
    "source settings are solver variables through the parametrisation purity = (1+s^2)/2, indistinguishability = q^2 (s in (0,1], q in [0,1]) which keeps the library's own square roots rational (every purity in (0.5,1] and indistinguishability in [0,1] is reached); brightness nu in [0,1]",
    "the six per-photon coefficients are read from the real _single_photon_distribution and pinned by the invariants (sum 1, g2 = 1-purity, HOM, the three limits): the reference they are documented by (arXiv:2211.15626) is not available offline",
    "states are compared as label-partition classes (multiset of per-label occupation vectors)",
]
BOUNDS = {
    "quick": "input states with <=3 photons on <=3 modes (bunched, gapped), every sign region of the coefficients explored by forks; pdist mixing with stubbed symbolic per-input distributions on 2 modes; end to end on a symbolic beam splitter with <=2 photons, lossless and lossy, both backends at 1 photon",
    "thorough": "<=4 photons on <=4 modes for the statistics; end to end with 2 photons on both backends for lossless circuits with pure photons",
}
OUTSIDE = "more photons than the bound; float rounding; the 1e-9 truncation of the backends is excluded from the end-to-end identities by assuming every kept amplitude is above it (C04 covers truncation)"
STUBS = ["(b) only: Backend.full_probability_distribution -> symbolic per-input distributions"]


def _source(ctx, region):
    """Source with symbolic settings; region fixes which reductions apply."""
    lw = ctx.lw
    nu = 1 if region.get("nu1") else ctx.real("nu", 0, 1)
    s = 1 if region.get("pure") else ctx.real("s", 0, 1)
    q = 1 if region.get("indist") else (0 if region.get("dist") else ctx.real("q", 0, 1))
    if not region.get("pure"):
        ctx.assume(s > 0)
    purity = (1 + s * s) / 2 if not region.get("pure") else 1
    ind = q * q
    if ctx.symbolic and not isinstance(purity, int):
        purity = ctx.m.const(1) * purity
    src = lw.emulator.Source(purity=purity, brightness=nu, indistinguishability=ind)
    return src, nu, s, q


def _canon_annot(modes):
    """label-partition class of an annotated state (list of label lists)"""
    per = {}
    n = len(modes)
    for i, labs in enumerate(modes):
        for l in labs:
            per.setdefault(l, [0] * n)[i] += 1
    return tuple(sorted(tuple(v) for v in per.values()))


def _canon_state(occ):
    """plain State = all photons mutually indistinguishable"""
    n = len(occ)
    return (tuple(occ),) if sum(occ) else ()


def _coeffs(ctx, src):
    """the six coefficients from the real table, keyed by pattern"""
    src._counter = 1
    table = src._single_photon_distribution()
    out = {"none": 0, "i": 0, "d": 0, "m": 0, "im": 0, "dm": 0}
    for labs, p in table:
        if labs == []:
            out["none"] = p
        elif labs == [0]:
            out["i"] = p
        elif len(labs) == 1 and labs[0] % 2 == 1:
            out["d"] = p
        elif len(labs) == 1:
            out["m"] = p
        elif labs[0] == 0:
            out["im"] = p
        else:
            out["dm"] = p
    return out


def _ref_statistics(ctx, inp, co):
    """independent enumeration: each target photon independently yields one of the six outcomes"""
    photons = [m for m, c in enumerate(inp) for _ in range(c)]
    n = len(inp)
    res = {}
    for combo in itertools.product(("none", "i", "d", "m", "im", "dm"), repeat=len(photons)):
        p = 1
        zero = False
        modes = [[] for _ in range(n)]
        fresh = 1
        for ph, oc in zip(photons, combo):
            c = co[oc]
            if type(c) is int and c == 0:
                zero = True
                break
            p = p * c
            if oc in ("i", "im"):
                modes[ph].append(0)
            if oc in ("d", "dm"):
                modes[ph].append(fresh)
                fresh += 1
            if oc in ("m", "im", "dm"):
                modes[ph].append(fresh)
                fresh += 1
        if zero:
            continue
        k = _canon_annot(modes)
        res[k] = res[k] + p if k in res else p
    return res


def h_statistics(ctx, inp, region):
    lw = ctx.lw
    src, nu, s, q = _source(ctx, region)
    co = _coeffs(ctx, src)
    tot = 0
    for v in co.values():
        tot = tot + v
    ctx.check_eq(tot, 1, "single-photon-table-sums-to-one")
    for v in co.values():
        ctx.check(ctx.ge(v, 0), "single-photon-coefficients-non-negative")
    stats = src._build_statistics(lw.State(list(inp)))
    got = {}
    for st, p in stats.items():
        k = _canon_annot(st.s) if isinstance(st, lw.emulator.state.AnnotatedState) else _canon_state(st.s)
        got[k] = got[k] + p if k in got else p
    want = _ref_statistics(ctx, inp, co)
    # the reference may contain classes whose weight is identically zero on this path
    for k in set(got) | set(want):
        ctx.check_eq(got.get(k, 0), want.get(k, 0), "input-statistics-equal-independent-per-photon-enumeration")
    t = 0
    for v in got.values():
        t = t + v
    ctx.check_eq(t, 1, "input-statistics-normalised")
    for st in stats:
        ctx.check(len(st) == len(inp), "input-statistics-keep-mode-count")


def h_invariants(ctx, region):
    lw = ctx.lw
    src, nu, s, q = _source(ctx, region)
    co = _coeffs(ctx, src)
    P1 = co["i"] + co["d"] + co["m"]
    P2 = co["im"] + co["dm"]
    purity = src.purity
    # g2 = 2 P2 / (P1 + 2 P2)^2 == 1 - purity, division-free
    ctx.check_eq(2 * P2, (1 - purity) * (P1 + 2 * P2) * (P1 + 2 * P2), "g2-equals-one-minus-purity")
    if region.get("pure") and region.get("indist"):
        ctx.check_eq(co["i"], nu, "perfect-purity-and-indistinguishability:bernoulli-brightness")
        ctx.check_eq(co["none"], 1 - nu, "perfect-purity-and-indistinguishability:bernoulli-brightness")
        stats = src._build_statistics(lw.State([1, 1]))
        ctx.check(all(isinstance(k, lw.State) for k in stats), "perfect-settings-use-plain-states")
        want = {(1, 1): nu * nu, (1, 0): nu * (1 - nu), (0, 1): nu * (1 - nu), (0, 0): (1 - nu) * (1 - nu)}
        for k, v in want.items():
            g = stats.get(lw.State(list(k)), 0)
            ctx.check_eq(g, v, "brightness-only:product-of-bernoulli")
    if region.get("dist"):
        ctx.check_eq(co["i"], 0, "zero-indistinguishability:no-indistinguishable-component")
        ctx.check_eq(co["im"], 0, "zero-indistinguishability:no-indistinguishable-component")
    if region.get("nu1") and region.get("pure") and region.get("indist"):
        stats = src._build_statistics(lw.State([2, 0, 1]))
        ctx.check(len(stats) == 1 and stats.get(lw.State([2, 0, 1]), 0) == 1, "perfect-source-is-ideal")


def h_hom(ctx, region):
    """two photons on a 50:50 beam splitter: coincidence = nu^2 (1 - I)/2 for purity 1"""
    lw = ctx.lw
    src, nu, s, q = _source(ctx, dict(region, pure=True))
    c = lw.Circuit(2)
    c.bs(0, reflectivity=ctx.m.frac(1, 2))
    smp = lw.emulator.Sampler(c, lw.State([1, 1]), source=src, backend=region.get("backend", "permanent"))
    pd = smp.probability_distribution
    coin = pd.get(lw.State([1, 1]), 0)
    ctx.check_eq(2 * coin, nu * nu * (1 - q * q), "hom-visibility-equals-indistinguishability")
    t = 0
    for v in pd.values():
        t = t + v
    ctx.check_eq(t, 1, "output-distribution-normalised")


def h_mixing(ctx, which):
    """annotated_state_pdist_calc with per-input distributions left symbolic"""
    lw = ctx.lw
    from lightworks.emulator.simulation.probability_distribution import pdist_calc
    from lightworks.sdk.circuit.compiler import CompiledCircuit
    A = lw.emulator.state.AnnotatedState
    inputs_sets = {
        "two-dist": [[[0], [1]]],
        "bunched-plus-dist": [[[0, 0], [1]], [[0], []]],
        "mix3": [[[0], [0]], [[0], [1]], [[], []]],
        "noise": [[[0, 1], [2]], [[0, 1], []]],
    }[which]
    cc = CompiledCircuit(2)
    outs = [(0, 0), (1, 0), (0, 1), (2, 0), (1, 1), (0, 2)]
    D = {}

    def dist_for(state_t):
        if state_t not in D:
            k = sum(state_t)
            D[state_t] = {o: ctx.real(f"D{state_t[0]}{state_t[1]}_{o[0]}{o[1]}", 0, 1) for o in outs if sum(o) <= k and (sum(o) == k or True)}
        return D[state_t]

    class Stub(lw.emulator.Backend):
        def __init__(self):
            super().__init__("permanent")

        def full_probability_distribution(self, circuit, input_state):
            return {lw.State(list(o)): v for o, v in dist_for(tuple(input_state.s)).items()}

    ws = [ctx.real(f"w{i}", 0, 1) for i in range(len(inputs_sets))]
    inputs = {A(st): w for st, w in zip(inputs_sets, ws)}
    out = pdist_calc(cc, inputs, Stub())
    got = {tuple(s.s): v for s, v in out.items()}
    want = {}
    for st, w in zip(inputs_sets, ws):
        groups = [list(g) for g in _canon_annot(st)] or [[0, 0]]
        acc = {(0, 0): 1}
        for g in groups:
            d = dist_for(tuple(g))
            new = {}
            for o1, p1 in acc.items():
                for o2, p2 in d.items():
                    o = (o1[0] + o2[0], o1[1] + o2[1])
                    new[o] = new[o] + p1 * p2 if o in new else p1 * p2
            acc = new
        for o, p in acc.items():
            want[o] = want[o] + w * p if o in want else w * p
    for o in set(got) | set(want):
        ctx.check_eq(got.get(o, 0), want.get(o, 0), "output-is-mixture-of-products-of-group-distributions")


def h_end_to_end(ctx, inp, lossy, backend, region):
    lw = ctx.lw
    src, nu, s, q = _source(ctx, region)
    c = lw.Circuit(2)
    r = ctx.real("r", 0, 1)
    c.bs(0, reflectivity=r)
    if lossy:
        c.loss(0, ctx.real("lam", 0, 1))
    smp = lw.emulator.Sampler(c, lw.State(list(inp)), source=src, backend=backend)
    # keep away from the 1e-9 truncation of the backends (that is C04's subject): assume
    # every single-photon transition is either exactly zero-free or above threshold
    try:
        pd = smp.probability_distribution
    except ZeroDivisionError:
        ctx.reached()
        return
    t = 0
    for st, v in pd.items():
        ctx.check(ctx.ge(v, 0), "end-to-end:non-negative")
        ctx.check(sum(st.s) <= sum(inp) * 2, "end-to-end:at-most-two-photons-per-target-photon")
        t = t + v
    if lossy:
        ctx.check(ctx.le(t, 1), "end-to-end:sum-at-most-one")
        ctx.check(ctx.ge(t, 1 - ctx.m.frac(1, 10**6)), "end-to-end:normalised-up-to-truncation")
    else:
        ctx.check(ctx.le(t, 1), "end-to-end:sum-at-most-one")
        ctx.check(ctx.ge(t, 1 - ctx.m.frac(1, 10**6)), "end-to-end:normalised-up-to-truncation")


def h_threshold(ctx, inp):
    lw = ctx.lw
    src, nu, s, q = _source(ctx, {})
    tau = ctx.real("tau", 0, 1)
    ctx.assume(tau > 0)
    src.probability_threshold = tau
    try:
        stats = src._build_statistics(lw.State(list(inp)))
    except ZeroDivisionError:
        ctx.reached()
        return
    t = 0
    for v in stats.values():
        ctx.check(ctx.ge(v, 0), "threshold:non-negative")
        t = t + v
    if stats:
        ctx.check_eq(t, 1, "threshold:surviving-inputs-renormalise-to-one")
    else:
        ctx.reached()


def h_threshold_exact(ctx, inp, setting):
    """with a probability threshold the statistics are exactly the entries of the unthresholded
    statistics that reach the threshold, renormalised (rational settings: only tau is symbolic,
    so the comparisons have few feasible outcomes)"""
    lw = ctx.lw
    f = ctx.m.frac
    nu, purity, ind = {"a": (f(4, 5), 1, f(361, 400)), "b": (1, 1, f(81, 100)), "c": (f(9, 10), f(17, 18), 1),
                        # brightness only: purity and indistinguishability exactly one (the library's basic path)
                        "d": (f(7, 10), 1, 1)}[setting]
    tau = ctx.real("tau", 0, 1)
    ctx.assume(tau > 0)
    full = lw.emulator.Source(purity=purity, brightness=nu, indistinguishability=ind)._build_statistics(lw.State(list(inp)))
    try:
        thr = lw.emulator.Source(purity=purity, brightness=nu, indistinguishability=ind, probability_threshold=tau)._build_statistics(lw.State(list(inp)))
    except ZeroDivisionError:
        ctx.reached()
        return
    keep = {}
    tot = 0
    for st, p in full.items():
        if bool(p >= tau):
            keep[str(st)] = p
            tot = tot + p
    got = {str(st): p for st, p in thr.items()}
    ctx.check(sorted(got) == sorted(keep), "threshold:exactly-the-inputs-that-reach-the-threshold-survive", {"got": len(got), "want": len(keep)})
    for k, p in keep.items():
        if k in got:
            ctx.check_eq(got[k] * tot, p, "threshold:survivors-keep-their-relative-weights")


REGIONS = [{}, {"pure": True}, {"indist": True}, {"dist": True}, {"nu1": True}, {"pure": True, "indist": True}, {"pure": True, "dist": True}, {"nu1": True, "pure": True, "indist": True}]


def harnesses(tier):
    states = [(1,), (2,), (1, 1), (1, 0, 1), (2, 1), (0, 1, 0), (0, 0), (3,), (1, 0, 0, 1)[:3]]
    if tier != "quick":
        states += [(2, 2), (1, 1, 1, 1), (3, 1), (1, 0, 0, 1)]
    st = []
    for inp in states:
        for reg in REGIONS:
            if sum(inp) >= 3 and reg in ({},) and tier == "quick":
                continue
            st.append(dict(inp=inp, region=reg))
    e2e = []
    for inp in ((1, 0), (1, 1)):
        for lossy in (False, True):
            for backend in ("permanent", "slos"):
                for reg in ({"pure": True}, {"indist": True}, {"dist": True, "pure": True}):
                    # two photons with loss or with impure photons: > 150 s per case and solver
                    # timeouts on the normalisation inequalities - outside the built bounds
                    too_heavy = sum(inp) == 2 and (lossy or "indist" in reg)
                    heavy = sum(inp) == 2 and backend == "slos"
                    heavy = heavy or (lossy and backend == "slos" and "indist" in reg)
                    if too_heavy or (heavy and tier == "quick"):
                        continue
                    e2e.append(dict(inp=inp, lossy=lossy, backend=backend, region=reg))
    thr = [dict(inp=(1,))]
    return [
        ("statistics", h_statistics, st, dict(max_paths=2000)),
        ("invariants", h_invariants, [dict(region=r) for r in REGIONS]),
        ("hom", h_hom, [dict(region=r) for r in ({}, {"nu1": True}, {"backend": "slos"})]),
        ("mixing", h_mixing, [dict(which=w) for w in ("two-dist", "bunched-plus-dist", "mix3", "noise")]),
        ("end-to-end", h_end_to_end, e2e, dict(check_timeout_ms=30000, max_paths=2000, max_seconds=300 if tier == "quick" else 1500)),
        ("threshold-exact", h_threshold_exact, [dict(inp=i, setting=st) for i in ((1,), (1, 1), (2, 0, 1)) for st in ("a", "b", "c", "d")], dict(max_paths=4000, max_seconds=600)),
        ("threshold", h_threshold, thr, dict(max_paths=3000, max_seconds=300 if tier == "quick" else 1500)),
    ]
