"""C17 -- result containers index consistently and mappings conserve weight."""
import itertools

PROPERTY = "C17"
LEVEL = "model_checking"
FUNCTIONS = [
    "lightworks.emulator.results.simulation_result.SimulationResult.__init__/__getitem__/apply_threshold_mapping/apply_parity_mapping/_recombine_mapped_result",
    "lightworks.emulator.results.sampling_result.SamplingResult.__init__/__getitem__/apply_threshold_mapping/apply_parity_mapping",
]
ASSUMPTIONS = [
    "A-REAL; A-LOADER; result values are arbitrary reals (complex for amplitude-typed results)",
    "output-state sets are enumerated by forks (occupations 0..3 on <=2 modes, chosen so that images collide in every pattern); the values are solver variables",
    "a CrossHair condition with symbolic occupations for SamplingResult was tried and dropped: not confirmable within 100 s (hash(str) of symbolic lists forces realisation of every occupation)",
]
BOUNDS = {
    "quick": "1-2 inputs x 1-4 outputs drawn from occupations 0..3 on 2 modes (and 0..2 on 3 modes, and the zero-mode state), both mappings x both invert values, second application of any mapping; SamplingResult with <=4 states",
    "thorough": "adds all 4-subsets of the 2-mode occupation grid with occupations 0..2",
}
OUTSIDE = "duplicate states inside inputs/outputs (dict semantics); plotting and dataframe display; complex values in probability-typed results (the library stores them in a float array)"
STUBS = []

GRID = [(a, b) for a in range(4) for b in range(4)]
SETS = [
    [(0, 0)], [(2, 3)], [(1, 0), (2, 0)], [(1, 1), (3, 1), (1, 3)], [(0, 1), (0, 2), (0, 3), (1, 0)],
    [(2, 2), (0, 0), (1, 1), (3, 3)], [(1, 2), (2, 1), (3, 0), (0, 3)], [(0, 2), (2, 0), (2, 2), (0, 0)],
    [(1, 0, 2), (3, 0, 0), (1, 2, 2), (0, 1, 0)],
    [()],  # the zero-mode state (output of a circuit whose modes are all heralded)
]


def fmap(kind, invert, s):
    if kind == "threshold":
        t = [1 if x >= 1 else 0 for x in s]
    else:
        t = [x % 2 for x in s]
    if invert:
        t = [1 - x for x in t]
    return tuple(t)


def _check_result(ctx, res, inputs, outs, vals, label):
    """res must represent: for input i, weight vals[i][o] on output o (outs distinct)."""
    lw = ctx.lw
    ctx.check(len(res.inputs) == len(inputs) and all(a == b for a, b in zip(res.inputs, inputs)), label + ":inputs-kept-in-order")
    ctx.check(sorted(o.s for o in res.outputs) == sorted(list(o) for o in outs), label + ":outputs-are-exactly-the-images")
    ctx.check(res.array.shape == (len(inputs), len(outs)), label + ":array-shape")
    for i, ist in enumerate(inputs):
        for j, ost in enumerate(res.outputs):
            want = vals[i][tuple(ost.s)]
            ctx.check_eq(res.array[i, j], want, label + ":array-follows-own-output-order")
            got = res[ist, ost]
            if isinstance(got, dict):
                ctx.fail(label + ":pair-index", "pair indexing returned a mapping instead of the value")
            else:
                ctx.check_eq(got, want, label + ":pair-index")
            ctx.check_eq(res[ist][ost], want, label + ":nested-index")
            ctx.check_eq(res[(ist,)][ost], want, label + ":one-tuple-index")


def h_simresult(ctx, n_in, outset, kind, invert):
    lw = ctx.lw
    outs = [tuple(o) for o in SETS[outset]]
    nm = len(outs[0])
    inputs = [lw.State([1] + [0] * (nm - 1)), lw.State([0] * (nm - 1) + [2])][:n_in]
    arr = ctx.np.zeros((n_in, len(outs)))
    vals = []
    for i in range(n_in):
        row = {}
        for j, o in enumerate(outs):
            v = ctx.real(f"v{i}{j}")
            arr[i, j] = v
            row[o] = v
        vals.append(row)
    ostates = [lw.State(list(o)) for o in outs]
    res = lw.emulator.results.SimulationResult(arr, "probability", inputs=inputs, outputs=ostates) if hasattr(lw.emulator, "results") else None
    _check_result(ctx, res, inputs, outs, vals, "plain")
    # mapping
    m1 = res.apply_threshold_mapping(invert) if kind == "threshold" else res.apply_parity_mapping(invert)
    img = {}
    vals1 = []
    for i in range(n_in):
        row = {}
        for o in outs:
            t = fmap(kind, invert, o)
            row[t] = row[t] + vals[i][o] if t in row else vals[i][o]
        vals1.append(row)
    outs1 = list(vals1[0].keys())
    _check_result(ctx, m1, inputs, outs1, vals1, f"{kind}:mapped")
    for i in range(n_in):
        tot0 = sum(vals[i].values())
        tot1 = 0
        for j in range(len(m1.outputs)):
            tot1 = tot1 + m1.array[i, j]
        ctx.check_eq(tot1, tot0, f"{kind}:row-total-unchanged")
    # original untouched
    _check_result(ctx, res, inputs, outs, vals, "original-after-mapping")
    # second application of any mapping
    kind2, inv2 = ctx.choice("second", [("threshold", False), ("threshold", True), ("parity", False), ("parity", True)])
    m2 = m1.apply_threshold_mapping(inv2) if kind2 == "threshold" else m1.apply_parity_mapping(inv2)
    vals2 = []
    for i in range(n_in):
        row = {}
        for o in outs1:
            t = fmap(kind2, inv2, o)
            row[t] = row[t] + vals1[i][o] if t in row else vals1[i][o]
        vals2.append(row)
    _check_result(ctx, m2, inputs, list(vals2[0].keys()), vals2, f"{kind2}:second-application")


def h_amp_refused(ctx, kind):
    lw = ctx.lw
    arr = ctx.cmatrix("a", 1, 2)
    res = lw.emulator.results.SimulationResult(arr, "probability_amplitude", inputs=[lw.State([1, 0])], outputs=[lw.State([1, 0]), lw.State([0, 1])])
    ctx.check_eq(res[lw.State([1, 0]), lw.State([0, 1])], arr[0, 1], "amplitude:pair-index")
    ctx.check_eq(res.array[0, 0], arr[0, 0], "amplitude:array")
    for inv in (False, True):
        try:
            res.apply_threshold_mapping(inv) if kind == "threshold" else res.apply_parity_mapping(inv)
        except ValueError:
            ctx.check(True, f"{kind}:refused-for-amplitudes")
            continue
        ctx.fail(f"{kind}:refused-for-amplitudes")
    # bad indices
    for bad, exc in ((lw.State([2, 2]), KeyError), ((lw.State([1, 0]), lw.State([5, 5])), KeyError), (3, TypeError), ((lw.State([1, 0]), 1), TypeError)):
        try:
            res[bad]
        except exc:
            ctx.check(True, "bad-index-rejected")
            continue
        ctx.fail("bad-index-rejected")


def h_sampling(ctx, outset, kind, invert):
    lw = ctx.lw
    outs = [tuple(o) for o in SETS[outset]]
    counts = {lw.State(list(o)): ctx.real(f"n{j}", 0, None) for j, o in enumerate(outs)}
    vals = {o: counts[lw.State(list(o))] for o in outs}
    inp = lw.State([1] * len(outs[0]))
    res = lw.emulator.results.SamplingResult(dict(counts), inp)
    for o in outs:
        ctx.check_eq(res[lw.State(list(o))], vals[o], "sampling:returns-the-count-it-was-built-from")
    ctx.check(len(res) == len(outs) and res.input == inp, "sampling:size-and-input")
    m = res.apply_threshold_mapping(invert) if kind == "threshold" else res.apply_parity_mapping(invert)
    want = {}
    for o in outs:
        t = fmap(kind, invert, o)
        want[t] = want[t] + vals[o] if t in want else vals[o]
    ctx.check(sorted(k.s for k in m.keys()) == sorted(list(t) for t in want), f"sampling:{kind}:keys-are-the-images")
    tot = 0
    for t, v in want.items():
        ctx.check_eq(m[lw.State(list(t))], v, f"sampling:{kind}:image-weight-is-sum-of-preimages")
        tot = tot + m[lw.State(list(t))]
    ctx.check_eq(tot, sum(vals.values()), f"sampling:{kind}:total-conserved")
    ctx.check(m.input == inp, "sampling:input-kept")
    # second application of any mapping to the mapped result (a mapped result is an ordinary
    # result: its outputs are again replaced by their images, e.g. inverted twice = flipped back)
    kind2, inv2 = ctx.choice("second", [("threshold", False), ("threshold", True), ("parity", False), ("parity", True)])
    m2 = m.apply_threshold_mapping(inv2) if kind2 == "threshold" else m.apply_parity_mapping(inv2)
    want2 = {}
    for t, v in want.items():
        t2 = fmap(kind2, inv2, t)
        want2[t2] = want2[t2] + v if t2 in want2 else v
    ctx.check(sorted(k.s for k in m2.keys()) == sorted(list(t) for t in want2), f"sampling:{kind2}:second-application:keys-are-the-images")
    for t, v in want2.items():
        if lw.State(list(t)) in m2:
            ctx.check_eq(m2[lw.State(list(t))], v, f"sampling:{kind2}:second-application:image-weight-is-sum-of-preimages")
    for t, v in want.items():
        ctx.check_eq(m[lw.State(list(t))], v, "sampling:second-application:first-mapped-result-untouched")
    for o in outs:
        ctx.check_eq(res[lw.State(list(o))], vals[o], "sampling:original-untouched")
    for bad, exc in (([1, 0], TypeError), (lw.State([9] * (len(outs[0]) + 1)), KeyError)):
        try:
            res[bad]
        except exc:
            ctx.check(True, "sampling:bad-index-rejected")
            continue
        ctx.fail("sampling:bad-index-rejected")


def harnesses(tier):
    global SETS
    sets = list(range(len(SETS)))
    if tier != "quick":
        grid = [(a, b) for a in range(3) for b in range(3)]
        extra = [list(c) for c in itertools.combinations(grid, 4)]
        SETS = SETS[:10] + extra
        sets = list(range(len(SETS)))
    sim = [dict(n_in=n, outset=s, kind=k, invert=i) for n in (1, 2) for s in sets for k in ("threshold", "parity") for i in (False, True)]
    if tier != "quick":
        sim = [c for c in sim if c["n_in"] == 2 or c["outset"] < 10]
    samp = [dict(outset=s, kind=k, invert=i) for s in sets for k in ("threshold", "parity") for i in (False, True)]
    return [
        ("simulation-result", h_simresult, sim),
        ("amplitudes-refused", h_amp_refused, [dict(kind="threshold"), dict(kind="parity")]),
        ("sampling-result", h_sampling, samp),
        ("simulation-result.raw", h_simresult, sim[::7], dict(raw=True)),
    ]
