#!/bin/bash
# usage: mutant_try.sh <PROP> <tier> <file> <python-replace-old> <python-replace-new>
# applies a textual mutation in a scratch worktree, runs the check with --repo, removes the worktree
set -e
P=$1; T=$2; F=$3; OLD=$4; NEW=$5
WT=/tmp/mut_$$
git -C /repo worktree add -q $WT HEAD
python3 - "$WT/$F" "$OLD" "$NEW" <<'PY'
import sys
p,o,n=sys.argv[1:4]
s=open(p).read()
assert o in s, "pattern not found"
open(p,'w').write(s.replace(o,n,1))
PY
cd /verif && ./run_check.py $P --tier $T --repo $WT 2>&1 | grep -E "VIOLATION|KNOWN|HARNESS|^\[" | head -8 || true
git -C /repo worktree remove --force $WT
