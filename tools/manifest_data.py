SYMX_NOTE = ("Trusted base: the loader's four AST rewrites, the exact scalar algebra and its normal-form rewrites (s^2->p, sin^2->1-cos^2, d*inv->1), "
             "numpy structural operations on object arrays, z3. Float arithmetic is modelled as exact real arithmetic (A-REAL); rounding effects are outside the claim. "
             "Every counterexample is replayed on the un-instrumented library before it is reported.")

CHECKS = [
    {
        "property_id": "C01", "engine": "symx", "category": "model_checking",
        "technique": "bounded symbolic execution of the real source + z3 (inductive step of CompiledCircuit.add from an arbitrary symbolic pre-state; symbolic programs of public calls)",
        "text": "For every value of reflectivity, loss, phases, unitary-block entries and of the accumulated matrix, one call of the real CompiledCircuit.add produces E(component) x M (all component kinds, all mode placements up to the bound); every embedding is unitary; 2-3-call programs through the public Circuit API give U = ordered product, U leading block of U_full, U_full unitary with one extra mode per loss element (also for a loss given as a Parameter of value 0); range validation accepts exactly [0,1]. Bounded in mode count and program length; the induction over program length is stated, not discharged.",
        "design_ref": "DESIGN.md section 4 C01", "note": SYMX_NOTE,
    },
]

XH_NOTE = ("Trusted base: CrossHair 0.0.110's models of Python ints/lists/dicts and z3; 'Confirmed over all paths' is CrossHair's verdict within the pre: bounds; "
           "each condition has an automatically generated reachability twin (negated postcondition) that must be refuted; counterexamples are replayed on plain CPython before being reported.")

CHECKS += [
    {
        "property_id": "C03", "engine": "symx+crosshair", "category": "model_checking",
        "technique": "bounded symbolic execution of Simulator.simulate on a fully symbolic unitary block + z3 (polynomial identities against a permutation-sum permanent); CrossHair (z3) for the rejection of malformed input/output states",
        "text": "For every complex value of the entries of the circuit's unitary block and every loss value, every amplitude returned by the real Simulator (array, pair index) equals perm(U_full[rows,cols])/sqrt(prod n!) with herald photons inserted on herald modes (in != out allowed) and vacuum on loss modes, for all inputs/outputs within the photon bound, also for lists that repeat a state and for circuits whose modes are all heralded; lossless bs/ps layouts give unit vectors for all parameter values; 5 CrossHair conditions: malformed states (negative/non-integer occupations, wrong length, mixed photon numbers) are rejected; Simulator probabilities of bunched inputs up to |9,9> equal an exact binomial reference (real numpy code, machine integers).",
        "design_ref": "DESIGN.md section 4 C03", "note": SYMX_NOTE + " thewalrus.perm is stubbed by a definitional permanent.",
    },
    {
        "property_id": "C13", "engine": "symx", "category": "model_checking",
        "technique": "symbolic execution of the real gate constructors in exact algebraic-number arithmetic + z3 (for-all-theta identities)",
        "text": "Every gate constructor is executed on exact algebraic constants (2**0.5, 2**-0.25, sqrt(3/sqrt2-2), ...) incl. the library's own check_unitary; for every dual-rail basis input the heralded amplitudes are proportional to the named gate matrix with the stated squared scalar, and for heralded/single-qubit gates vanish outside the qubit subspace; rotation angle is a solver variable.",
        "design_ref": "DESIGN.md section 4 C13", "note": SYMX_NOTE,
    },
    {
        "property_id": "C18", "engine": "crosshair+symx", "category": "model_checking",
        "technique": "CrossHair symbolic execution (z3) of State/AnnotatedState/herald utilities with symbolic lists and ints; symx+z3 for dB conversions modulo log/exp axioms",
        "text": "12 CrossHair conditions confirmed over all paths within list-length/occupation bounds: equality iff occupations equal (and equal str, the hash input), concatenation/merge/slice algebra, immutability (also of annotated states through every accessor that returns label lists), annotated-state label-order invariance, herald insert/remove round trip for any herald positions and key order, fock_basis counting, seed validation; dB<->decimal round trips decided by z3 modulo the stated log/exp axioms.",
        "design_ref": "DESIGN.md section 4 C18", "note": XH_NOTE,
    },
]

CHECKS += [
    {
        "property_id": "C08", "engine": "crosshair", "category": "model_checking",
        "technique": "CrossHair symbolic execution (z3) of the real Circuit API with symbolic sizes, modes, herald positions, flags and (in)valid value indices",
        "text": "27 conditions (quick) confirmed over all paths within the pre: bounds: adding a circuit (4 argument kinds, parents with/without an earlier heralded sub-circuit, any placement, both group flags, once or twice) leaves the argument's observable state unchanged; later edits of an added circuit leave the parent unchanged; copies are independent both ways; a + b keeps operands; Simulator, Sampler (distribution and all sampling calls), QuickSampler, Analyzer and Reck().map (default and noisy error model) leave the circuit and the input state unchanged (structure chosen by the solver, consumer run concretely); each construction method (bs, ps, loss, barrier, mode_swaps, herald, add) that raises leaves the circuit exactly as it was.",
        "design_ref": "DESIGN.md section 4 C08", "note": XH_NOTE,
    },
]

CHECKS += [
    {
        "property_id": "C10", "engine": "symx", "category": "model_checking",
        "technique": "bounded symbolic execution of Parameter/ParameterDict and of circuits holding Parameter objects + z3 (one inductive step from an arbitrary bounded state; relational liveness check)",
        "text": "From an arbitrary Parameter state with min<=value<=max (any reals, any bound configuration), one set / min_bound / max_bound / ParameterDict assignment with an arbitrary real or non-numeric argument keeps the invariant and a rejected update changes nothing (z3 decides every comparison); circuits with parameters in bs/ps/loss, groups, heralded and nested sub-circuits report U for the current values for all v1,v2 (also after each in-place rewrite: unpack_groups, compress_mode_swaps, remove_non_adjacent_bs), frozen copies keep v1 and list no parameters, every parameter is listed once, out-of-range values surface as CircuitCompilationError.",
        "design_ref": "DESIGN.md section 4 C10", "note": SYMX_NOTE + " Induction over operation sequences is stated, not discharged.",
    },
]

CHECKS += [
    {
        "property_id": "C17", "engine": "symx", "category": "model_checking",
        "technique": "bounded symbolic execution of SimulationResult/SamplingResult with symbolic values + z3 (linear identities over the returned object's own state lists)",
        "text": "For arbitrary real (complex for amplitudes) result values and output-state sets chosen so that images collide in every pattern (the zero-mode state included): pair, nested and array indexing agree in the order of the object's own lists; threshold/parity mappings (plain, inverted, and a second application of any mapping) send every output to its image, add coinciding weights, keep row totals, leave the original untouched; amplitude-typed results are refused; SamplingResult returns the counts it was built from and conserves totals.",
        "design_ref": "DESIGN.md section 4 C17", "note": SYMX_NOTE,
    },
]

CHECKS += [
    {
        "property_id": "C09", "engine": "symx+crosshair", "category": "model_checking",
        "technique": "bounded symbolic execution of the five rewrites on fork-generated circuits with symbolic parameters + z3 (U_full before == after); CrossHair for the swap-dictionary algebra",
        "text": "For every value of all component parameters, on fork-generated 4-mode programs (all component kinds, swap-heavy prefixes, plain/heralded/nested groups): each of unpack_groups, compress_mode_swaps, remove_non_adjacent_bs, copy, copy(freeze) and every ordered pair of them leaves U_full, heralds and mode counts unchanged, meets its structural postcondition (no group / no non-adjacent beam splitter at any depth / no growth) and shares no component object with the original; combine_mode_swap_dicts composes permutations and convert_non_adj_beamsplitters conjugates by inverse swaps for all mode pairs within the bound.",
        "design_ref": "DESIGN.md section 4 C09", "note": SYMX_NOTE + " " + XH_NOTE,
    },
]

CHECKS += [
    {
        "property_id": "C02", "engine": "symx", "category": "model_checking",
        "technique": "bounded symbolic execution of Circuit.add on circuits carrying fully symbolic blocks + z3 (one-step wiring identity relative to the library's own U_full of sub-circuit and parent; disjunction over ancilla relabellings)",
        "text": "For all complex entries of the blocks of parent, earlier sub-circuits and the added circuit: every accepted add gives U_full_after = W(U_full_sub) x lift(U_full_before) for some placement of the new ancillas, where W connects the j-th non-herald input/output to user mode m+j and each herald to a private ancilla with its photon number on input and output; mode counts, input size and herald dictionaries are as stated; earlier ancillas are untouched; oversize additions are rejected and accepted ones compile; later user-mode addressing skips ancillas. All herald in/out tuples, both declaration orders, both group flags, lossy and nested sub-circuits (inner heralded circuit added before or after the sub-circuit's own heralds were declared) within the size bounds. Nesting depth follows by induction over add (stated).",
        "design_ref": "DESIGN.md section 4 C02", "note": SYMX_NOTE,
    },
]

CHECKS += [
    {
        "property_id": "C04", "engine": "symx+crosshair", "category": "model_checking",
        "technique": "bounded symbolic execution of SLOS, both branches of full_probability_distribution, pdist_calc and Sampler.probability_distribution with symbolic circuit parameters; every 1e-9 threshold comparison forks; z3 decides feasibility and the inequalities (monomial-linearised QF_LRA relaxation first, then nlsat); CrossHair (z3) chooses bunched occupation numbers for the real numpy normalisation code",
        "text": "For all reflectivities, phases and loss values on the listed shapes and all inputs within the photon bound (also with every photon on a heralded mode), on every feasible threshold path: the SLOS kernel returns the definitional amplitudes on an arbitrary matrix; each backend's non-vacuum entries equal the loss-marginalised probability minus exactly the sub-threshold terms, are non-negative and never exceed the exact value; the sampler's distribution (real pdist_calc, also with arbitrary stubbed sub-distributions) sums to one within the truncation slack, keeps the full vacuum weight, and permanent and slos agree within that slack; 3 CrossHair conditions run the real numpy/numba normalisation on solver-chosen bunched inputs (<= 24 photons on 2 modes for slos, <= 14 for permanent) against an exact binomial reference - the part of the claim that depends on machine-integer behaviour, which the real-arithmetic engine cannot see.",
        "design_ref": "DESIGN.md section 4 C04", "note": SYMX_NOTE + " Solver 'unknown' on a branch is treated as feasible (over-approximation).",
    },
]

CHECKS += [
    {
        "property_id": "C05", "engine": "symx", "category": "model_checking",
        "technique": "bounded symbolic execution of Analyzer, QuickSampler and Simulator with symbolic circuit parameters + z3 (all compared with one loss-marginalised Fock-amplitude reference; division-free error-rate and renormalisation identities)",
        "text": "For all reflectivities, phases and loss values on the listed shapes, heralds with 0/1 photons (in != out allowed; inputs whose photons all sit on heralded modes included), 1-2 equal-photon inputs with distinct expected outputs given in either order, and four kinds of post-selection: the analyzer's outputs are exactly the post-selected heralded outputs, its entries equal the loss-marginalised heralded probabilities, performance is the mean accepted total and error rate one minus the accepted-and-expected fraction; the quick sampler's distribution is the reference conditioned on heralds, post-selection, no loss (and <=1 photon per mode for threshold detection) renormalised, on every threshold path; squared simulator amplitudes equal analyzer probabilities; none of the objects raises on a circuit the others accept.",
        "design_ref": "DESIGN.md section 4 C05", "note": SYMX_NOTE,
    },
]

CHECKS += [
    {
        "property_id": "C06", "engine": "symx", "category": "model_checking",
        "technique": "bounded symbolic execution of the Source statistics and of annotated_state_pdist_calc with symbolic brightness/purity/indistinguishability + z3 (polynomial identities after clearing denominators; sign regions of the coefficients explored by forks)",
        "text": "For all brightness in [0,1], purity in (0.5,1], indistinguishability in [0,1] (through a parametrisation that keeps the library's square roots rational): the input statistics equal an independent per-photon enumeration over the six emission outcomes compared as label-partition classes, and are normalised; the single-photon table sums to one, has g2 = 1 - purity, reduces to Bernoulli(brightness) / the ideal source / no indistinguishable component in the three limits; HOM coincidence on a 50:50 beam splitter is nu^2(1-I)/2; the annotated-state mixing equals the mixture of products of group distributions for arbitrary symbolic per-input distributions; end-to-end sampler distributions are non-negative and normalised; a probability threshold renormalises the survivors.",
        "design_ref": "DESIGN.md section 4 C06", "note": SYMX_NOTE + " The six coefficient formulas themselves are pinned only through the listed invariants.",
    },
]

CHECKS += [
    {
        "property_id": "C07", "engine": "symx", "category": "model_checking",
        "technique": "probabilistic symbolic execution of the real sampling code: RNG calls are nondeterministic stubs with exact measures, all decision vectors are enumerated and their measures summed as polynomials in (efficiency, p_dark); z3 decides regime forks and residual identities; same-seed reproducibility as a two-run relational obligation",
        "text": "For all efficiency and p_dark in [0,1] and both detector modes: the implemented detector law (sum of path measures of _get_output) equals thinning per photon, then at most one dark count per mode, then thresholding, for every input within the bound; sample_N_inputs draws N from the distribution and the law of its accepted outputs equals the detected, heralded, post-selected law with herald modes removed; sample_N_outputs draws exactly N from the renormalised conditional distribution and refuses dark counts; sample() returns each state with its probability; with the same seed (int, 0, numpy integer, integral float) no consumed randomness lies outside the seeded generators and every sampling method accepts the seed. Known finding: Sampler.sample() does not apply heralds.",
        "design_ref": "DESIGN.md section 4 C07", "note": SYMX_NOTE + " The RNG libraries are trusted (A-EXT); convergence of empirical frequencies is replaced by equality of the generating law.",
    },
]

CHECKS += [
    {
        "property_id": "C11", "engine": "symx", "category": "model_checking",
        "technique": "bounded relational symbolic execution: a long-lived Sampler/QuickSampler after every sequence of reconfigurations vs a fresh object with the same settings, symbolic old/new values so that z3 decides both sides of every cache comparison",
        "text": "For all symbolic parameter values (old and new, equal or different) and every sequence of 2 reconfigurations out of 13 (incl. a moved herald, a moved output herald only, a source purity / indistinguishability change and a PostSelection object edited in place) with or without an intermediate read: the long-lived object's distribution equals the fresh object's (same support, same values, same error if any), sampling after a change draws from the current distribution, sample() works without a prior read, reading the distribution again after any sampling method gives what a fresh object gives (probability threshold raised so that Generator.choice's sum-to-one contract sends sample_N_inputs into its renormalising branch), an Analyzer result carries an error rate only when that call was given expected outputs, and a long-lived Analyzer gives what a fresh one gives after 1-2 of 7 reconfigurations (circuit reassigned with other heralds, loss or components added in place, post-selection reassigned or edited in place, parameter set).",
        "design_ref": "DESIGN.md section 4 C11", "note": SYMX_NOTE,
    },
]

CHECKS += [
    {
        "property_id": "C15", "engine": "symx", "category": "model_checking",
        "technique": "symbolic execution of StateTomography.process with an arbitrary symbolic density matrix injected through a noiseless-oracle callback + z3 (linear identities in the entries of rho with exact algebraic coefficients)",
        "text": "For every Hermitian unit-trace matrix rho (4^n-1 real solver variables, n=1,2; 3 in thorough) and base circuits incl. the library's post-selected CNOT and heralded CZ: the callback is called once with exactly 3^n circuits, one per element of {X,Y,Z}^n, each equal to the base circuit followed by 2x2 basis-change blocks on the qubit mode pairs and identity elsewhere; process() returns rho entrywise (hence Hermitian, unit trace, the outer product for pure states, entangled or not); the base circuit is unchanged.",
        "design_ref": "DESIGN.md section 4 C15", "note": SYMX_NOTE + " fidelity() (scipy sqrtm) is outside the claim.",
    },
]

CHECKS += [
    {
        "property_id": "C16", "engine": "symx", "category": "model_checking",
        "technique": "symbolic execution of LI process tomography, gate fidelity and the MLE forward model / TP projection for a unitary with symbolic angles + z3 (trigonometric-polynomial identities; constant pseudo-inverses certified exactly)",
        "text": "For every single-qubit unitary V (three symbolic angles; V1 (x) V2 on two qubits in thorough) with a noiseless-oracle callback: linear inversion returns choi_from_unitary(V) entrywise; gate fidelity equals (|tr(T^dagger V)|^2+d)/(d(d+1)) for every target T and 1 for T=V; the MLE forward model of choi_from_unitary(V) is proportional to the measured frequencies (necessary for the likelihood optimum to be the true process) and the TP projection yields identity partial trace. NOT decided (not encodable): positivity / trace preservation / fidelity >= 0.99 of the MLE output (iterative descent with eigh) and the sqrtm-based fidelity values.",
        "design_ref": "DESIGN.md section 4 C16", "note": SYMX_NOTE + " np.linalg.pinv/solve on constant matrices are computed numerically, rationalised and certified exactly before use.",
    },
]

CHECKS += [
    {
        "property_id": "C14", "engine": "symx+crosshair", "category": "model_checking",
        "technique": "bounded symbolic execution of reck_decomposition / Reck.map with symbolic angles (arctan, angle, abs as algebraic angle objects) and symbolic error-model draws + z3",
        "text": "bs_matrix is unitary for all theta, phi; for every 2x2 unitary, every monomial matrix P.diag(e^{i alpha}) with N<=3 (identity, permutations: the exactly-zero-entry region) and 1 (+) U(2), with and without heralds, Reck().map gives a circuit of adjacent beam splitters and phase shifters whose U equals the original (exactly, or within 1e-9 on the paths where an entry is below the library's 1e-20 null test - those few obligations may come back inconclusive and are reported), with the original's heralds and every programmed phase in [0, 2 pi); TopHat/Constant/Gaussian values lie within their symbolic bounds; a noisy mapping is still unitary with U a sub-block and the same seed gives the same circuit. One CrossHair condition runs the real float code on every permutation circuit of 2-4 modes (with and without a herald): every programmed phase is strictly below 2*pi and the unitary is reproduced - the float side of the range clause, which holds by definition over the reals.",
        "design_ref": "DESIGN.md section 4 C14", "note": SYMX_NOTE + " Dense unitaries of size >= 3 are outside (nested radicals); Gaussian resampling is unrolled 4 times.",
    },
]

CHECKS += [
    {
        "property_id": "C12", "engine": "symx+crosshair", "category": "model_checking",
        "technique": "symbolic execution of the real converter and gate library on concretely built qiskit circuits with rotation angles abstracted to trigonometric atoms + z3 (division-free proportionality of accepted amplitudes to a bit-tuple reference unitary); CrossHair for the qubit-adjacency arithmetic",
        "text": "For every program in the bound (all pairs of operations with a multi-qubit gate on 2 qubits, pairs of multi-qubit gates on 3 qubits incl. non-adjacent and all ccx target positions, entangling-swap-entangling triples, gates three qubits apart on 4 qubits, circuits made of several quantum registers, both modes) and every rotation angle: the converter returns within the watchdog time and either raises or returns a lossless circuit whose accepted dual-rail amplitudes are pairwise proportional to the qiskit unitary's entries with a non-zero scalar, vanish outside the qubit subspace, and whose rules are one photon per qubit pair; convert_two_qubits_to_adjacent returns adjacent, order-preserving positions reached by its swaps for all qubit pairs below 8.",
        "design_ref": "DESIGN.md section 4 C12", "note": SYMX_NOTE + " The bit-tuple reference is validated against qiskit.quantum_info.Operator in every concrete validation run. Programs above the photon bound rest on C02 + C13 + the stated composition lemma.",
    },
]

CHECKS += [
    {
        "property_id": "C19", "engine": "crosshair", "category": "exploration",
        "technique": "CrossHair (z3) chooses circuit structure and display options within stated integer bounds; the drawing code runs on the realised values and must return a drawing without raising and leave the circuit unchanged",
        "text": "Bounded structural exploration driven by the solver's choice of integers: 27 conditions over circuit size, component kind (8 kinds incl. labelled/unlabelled parameters, loss, barriers, unitary blocks), mode placement, herald in/out positions, heralded 3-mode groups at any position (flat or nested in a named group, followed by further components), loss display, parameter values, label-list length (also with a herald set directly on the circuit) and display type; both back ends. Every configuration within the bounds returns a drawing (or DisplayError exactly for a wrong label count or unknown type) and leaves the circuit's observable state unchanged. This is the weakest claim of the set: exception-freedom is a property of program structure and the numeric label formatting cannot be encoded.",
        "design_ref": "DESIGN.md section 4 C19", "note": XH_NOTE + " The library's multimethod dispatch cannot be traced by CrossHair, so values are realised before the drawing call (the exploration is then an exhaustive solver-driven enumeration of the bounded integer space).",
    },
]

_TODO = "check not built yet in this round; see DESIGN.md section 4 for the plan"
NOT_APPLICABLE = [
    {"property_id": f"C{i:02d}", "reason": _TODO} for i in range(2, 20) if f"C{i:02d}" not in {c["property_id"] for c in CHECKS}
]
