SYMX_NOTE = ("Trusted base: the loader's four AST rewrites, the exact scalar algebra and its normal-form rewrites (s^2->p, sin^2->1-cos^2, d*inv->1), "
             "numpy structural operations on object arrays, z3. Float arithmetic is modelled as exact real arithmetic (A-REAL); rounding effects are outside the claim. "
             "Every counterexample is replayed on the un-instrumented library before it is reported.")

CHECKS = [
    {
        "property_id": "C01", "engine": "symx", "category": "model_checking",
        "technique": "bounded symbolic execution of the real source + z3 (inductive step of CompiledCircuit.add from an arbitrary symbolic pre-state; symbolic programs of public calls)",
        "text": "For every value of reflectivity, loss, phases, unitary-block entries and of the accumulated matrix, one call of the real CompiledCircuit.add produces E(component) x M (all component kinds, all mode placements up to the bound); every embedding is unitary; 2-3-call programs through the public Circuit API give U = ordered product, U leading block of U_full, U_full unitary with one extra mode per loss element; range validation accepts exactly [0,1]. Bounded in mode count and program length; the induction over program length is stated, not discharged.",
        "design_ref": "DESIGN.md section 4 C01", "note": SYMX_NOTE,
    },
]

_TODO = "check not built yet in this round; see DESIGN.md section 4 for the plan"
NOT_APPLICABLE = [
    {"property_id": f"C{i:02d}", "reason": _TODO} for i in range(2, 20)
]
