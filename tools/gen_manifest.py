#!/usr/bin/env python3
"""Regenerates MANIFEST.json from the table below and validates it."""
import json
import os
import sys

VERIF = os.path.dirname(os.path.dirname(os.path.abspath(__file__)))
sys.path.insert(0, VERIF)
from tools.manifest_data import CHECKS, NOT_APPLICABLE  # noqa: E402

man = {
    "version": 1,
    "setup_cmd": "./bootstrap.sh",
    "hooks": {
        "guard": "LIGHTWORKS_VERIF",
        "enable": "no source hooks: the instrumenting import loader (symx/loader.py) rewrites /repo's current source at import time inside the check process; nothing is committed to /repo for instrumentation",
        "baseline_off_cmd": "cd /repo && /venv/bin/python -m pytest -ra -q -p no:cacheprovider --timeout=900 --continue-on-collection-errors",
        "source_commits": [],
        "add_only": True,
    },
    "engines": [
        {"name": "symx", "path": "symx/", "serves_properties": sorted(c["property_id"] for c in CHECKS if "symx" in c.get("engine", "")),
         "kind_free_text": "own symbolic executor: AST-instrumenting import loader over /repo's source, exact polynomial scalar algebra on numpy object arrays, decision-prefix path exploration, z3 decides branch feasibility and every obligation; counterexamples replayed on the plain library"},
        {"name": "crosshair", "path": "xh/", "serves_properties": sorted(c["property_id"] for c in CHECKS if "crosshair" in c.get("engine", "")),
         "kind_free_text": "CrossHair 0.0.110 symbolic execution (z3) of the un-instrumented library for integer/container bookkeeping; counterexamples replayed on plain CPython"},
    ],
    "checks": [],
    "not_applicable": NOT_APPLICABLE,
    "notes": "All results are bounded: they hold for every value of the symbolic variables within the bounds listed in each evidence file. Exit 2 = harness error (vacuity guard / engine failure), never reported as a pass.",
}
for c in CHECKS:
    pid = c["property_id"]
    man["checks"].append({
        "property_id": pid,
        "quick_cmd": f"./run_check.py {pid} --tier quick",
        "thorough_cmd": f"./run_check.py {pid} --tier thorough",
        "evidence_file": f"/verif/evidence/{pid}.json",
        "replay_cmd_template": "./run_check.py --replay {path}",
        "engine": c["engine"],
        "level_claimed": {"category": c["category"], "text": c["text"], "design_ref": c["design_ref"]},
        "level_note": c["note"],
        "technique": c["technique"],
    })
with open(os.path.join(VERIF, "MANIFEST.json"), "w") as f:
    json.dump(man, f, indent=1)
try:
    import jsonschema
    jsonschema.validate(man, json.load(open("/root/.vp/MANIFEST.schema.json")))
    print("MANIFEST valid;", len(man["checks"]), "checks,", len(NOT_APPLICABLE), "not applicable")
except ImportError:
    print("jsonschema unavailable; wrote MANIFEST without validation")
