#!/bin/bash
# usage: tools/seed_regress.sh [seed-id-prefix ...]
# Applies every seeded change (or the selected ones) to a scratch worktree of /repo's HEAD and runs
# the quick tier of the check named first in its meta.json "caught_by"; expects exit 1 with a
# VIOLATION line.  Writes seeded/REGRESSION.txt.  Scratch worktrees live under /tmp and are removed.
cd "$(dirname "$0")/.."
SEL="$@"
OUT=seeded/REGRESSION.txt
TMPO=$(mktemp)
run_one() {
  d=$1; id=$(basename $d)
  prop=$(/opt/veriftools/pyvenv/bin/python -c "
import json,re,sys
m=json.load(open('$d/meta.json')); c=re.match(r'(C\d\d)', m.get('caught_by','')); print(c.group(1) if c else m['property'])")
  WT=/tmp/sreg_$id
  git -C /repo worktree add -q $WT HEAD 2>/dev/null
  if ! (cd $WT && git apply $OLDPWD/$d/patch.diff 2>/dev/null); then
    echo "$id $prop PATCH-DOES-NOT-APPLY"; git -C /repo worktree remove --force $WT; return
  fi
  s=$(date +%s)
  out=$(./run_check.py $prop --tier quick --repo $WT --jobs 8 2>&1); rc=$?
  e=$(date +%s)
  nv=$(echo "$out" | grep -c '^VIOLATION')
  echo "$id $prop exit=$rc violations=$nv $((e-s))s"
  git -C /repo worktree remove --force $WT
}
export -f run_one
ls -d seeded/s[0-9]*/ | sed 's#/$##' | while read d; do
  if [ -n "$SEL" ]; then ok=0; for p in $SEL; do case "$(basename $d)" in $p*) ok=1;; esac; done; [ $ok = 1 ] || continue; fi
  echo $d
done | xargs -P 2 -I{} bash -c 'run_one {}' >> $TMPO
{ echo "# seeded-change regression on /repo $(git -C /repo log -1 --format=%h), /verif $(git log -1 --format=%h), $(date -u +%FT%TZ)"; sort $TMPO; } > $OUT
rm -f $TMPO
cat $OUT
