#!/bin/bash
# usage: seed_eval.sh <seed-id> <PROP> <dir-with-seed_patch.diff-and-seed_demo.py> [tier]
# Confirms a seeded change in a scratch worktree (demo passes clean / fails patched, suite passes),
# runs the owning check against it and writes /verif/seeded/<id>/{patch.diff,demo.py,eval.txt}
ID=$1; P=$2; SRC=$3; TIER=${4:-quick}
D=/verif/seeded/$ID; mkdir -p $D
cp $SRC/seed_patch.diff $D/patch.diff; cp $SRC/seed_demo.py $D/demo.py
WT=/tmp/seval_$ID; git -C /repo worktree add -q $WT HEAD
{
echo "== demo on clean tree"; (cd $WT && PYTHONPATH=$WT timeout 900 /venv/bin/python $D/demo.py >/dev/null 2>&1; echo "exit=$?")
echo "== apply patch"; (cd $WT && git apply $D/patch.diff && git diff --stat | tail -1)
echo "== demo on patched tree"; (cd $WT && PYTHONPATH=$WT timeout 900 /venv/bin/python $D/demo.py 2>&1 | tail -3; echo "exit=${PIPESTATUS[0]}")
echo "== test suite on patched tree"; (cd $WT && /venv/bin/python -m pytest -q -p no:cacheprovider -n 8 2>&1 | tail -1)
echo "== check $P $TIER on patched tree"; (cd /verif && ./run_check.py $P --tier $TIER --repo $WT 2>&1 | grep -E "VIOLATION|KNOWN|key=|HARNESS|SPURIOUS|INCONCLUSIVE|^\[" | cut -c1-260 | head -12; echo "check_exit=${PIPESTATUS[0]}")
} > $D/eval.txt 2>&1
git -C /repo worktree remove --force $WT
cat $D/eval.txt
