#!/bin/bash
# usage: tools/run_all.sh quick|thorough [ids...]   -- runs checks sequentially, prints one summary line each
TIER=${1:-quick}; shift
IDS=${@:-C01 C02 C03 C04 C05 C06 C07 C08 C09 C10 C11 C12 C13 C14 C15 C16 C17 C18 C19}
cd "$(dirname "$0")/.."
for p in $IDS; do
  s=$(date +%s)
  out=$(./run_check.py $p --tier $TIER 2>&1); rc=$?
  e=$(date +%s)
  echo "$p rc=$rc $((e-s))s $(echo "$out" | grep -cE '^VIOLATION') violations, $(echo "$out" | grep -cE '^KNOWN-FINDING') known, $(echo "$out" | grep -cE '^INCONCLUSIVE') inconclusive-lines, $(echo "$out" | grep -cE '^HARNESS-ERROR') harness-errors | $(echo "$out" | grep -E '^\[' | cut -c1-150)"
done
