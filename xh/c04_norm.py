"""CrossHair conditions for C04: the factorial normalisation of both backends on
bunched inputs.  The occupation numbers are the solver's choice; numpy / numba
kernels run concretely on the realised values (machine-integer behaviour of
numpy is part of what is checked: the symx engine models Python and numpy
integers as mathematical integers and cannot see a wrap-around)."""
import math

import numpy as np

import lightworks as lw
from lightworks.emulator.backend import slos as _slos

try:
    from crosshair.core import deep_realize
    from crosshair.tracers import NoTracing, is_tracing
except ImportError:  # plain replay without crosshair installed
    deep_realize = None


def _untraced(fn, *args):
    if deep_realize is not None and is_tracing():
        args = deep_realize(args)
        with NoTracing():
            return fn(*args)
    return fn(*args)


def _vf_body(a, b):
    vf = getattr(_slos, "vector_factorial", None)
    if vf is None:  # helper renamed or inlined by a refactor: the end-to-end conditions still apply
        return True
    return vf([a, b]) == math.factorial(a) * math.factorial(b)


def _vector_factorial(a: int, b: int) -> bool:
    """
    pre: 0 <= a <= b <= 22
    post: _
    """
    return _untraced(_vf_body, a, b)


def _binom_dist(a, b):
    """exact output distribution of |a,b> on a 50:50 beam splitter [[1, i],[i, 1]]/sqrt(2)
    from the polynomial expansion of the creation operators (own code, exact integers)"""
    n = a + b
    out = {}
    for p in range(n + 1):
        # amplitude of |p, n-p>: sum_k C(a,k) C(b,p-k) (1)^k (i)^(a-k) (i)^(p-k) (1)^(b-p+k)
        re = im = 0
        for k in range(max(0, p - b), min(a, p) + 1):
            c = math.comb(a, k) * math.comb(b, p - k)
            e = (a - k + p - k) % 4
            re += c * (1, 0, -1, 0)[e]
            im += c * (0, 1, 0, -1)[e]
        num = (re * re + im * im) * math.factorial(p) * math.factorial(n - p)
        den = math.factorial(a) * math.factorial(b) * 2 ** n
        out[(p, n - p)] = num / den
    return out


def _sampler_body(a, b, backend):
    c = lw.Circuit(2)
    c.bs(0)
    try:
        pd = lw.emulator.Sampler(c, lw.State([a, b]), backend=backend).probability_distribution
    except Exception:  # noqa: BLE001
        return False
    want = _binom_dist(a, b)
    got = {tuple(k.s): float(v) for k, v in pd.items()}
    if abs(sum(got.values()) - 1) > 1e-6:
        return False
    for k, v in want.items():
        if abs(got.get(k, 0.0) - v) > 1e-6:
            return False
    return all(k in want for k in got)


def _bunched_slos(a: int, b: int) -> bool:
    """
    pre: 0 <= a <= b <= 24 and 1 <= a + b <= 24
    post: _
    """
    return _untraced(_sampler_body, a, b, "slos")


def _bunched_permanent(a: int, b: int) -> bool:
    """
    pre: 0 <= a <= b <= 14 and 1 <= a + b <= 14
    post: _
    """
    return _untraced(_sampler_body, a, b, "permanent")


def _simulator_body(a, b):
    c = lw.Circuit(2)
    c.bs(0)
    try:
        res = lw.emulator.Simulator(c).simulate(lw.State([a, b]))
    except Exception:  # noqa: BLE001
        return False
    want = _binom_dist(a, b)
    tot = 0.0
    for j, o in enumerate(res.outputs):
        p = abs(complex(res.array[0, j])) ** 2
        tot += p
        if abs(p - want[tuple(o.s)]) > 1e-6:
            return False
    return abs(tot - 1) < 1e-6


def _bunched_simulator(a: int, b: int) -> bool:
    """
    pre: 0 <= a <= b <= 9 and 1 <= a + b
    post: _
    """
    return _untraced(_simulator_body, a, b)
