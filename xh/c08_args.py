"""CrossHair conditions for C08: operations never modify their arguments;
failed construction calls change nothing.  Symbolic: sizes, modes, herald
positions, flags, indices into tables of (in)valid values."""
import numpy as np

import lightworks as lw
from lightworks.sdk.utils.exceptions import ModeRangeError

REJECT = (ModeRangeError, ValueError, TypeError)
VALS = [-0.5, 0.0, 0.3, 1.0, 1.5]


def _val(v):
    if isinstance(v, dict):
        return tuple((k, _val(x)) for k, x in sorted(v.items(), key=lambda kv: str(kv[0])))
    if isinstance(v, (list, tuple)):
        return tuple(_val(x) for x in v)
    if isinstance(v, np.ndarray):
        return tuple(tuple(complex(z) for z in row) for row in np.round(v, 9))
    if isinstance(v, lw.Parameter):
        return ("Parameter", v.get(), v.min_bound, v.max_bound, v.label)
    if hasattr(v, "fields") and hasattr(v, "values"):
        return (type(v).__name__,) + tuple(_val(x) for x in v.values())
    return v


def observe(c):
    try:
        u = _val(c.U_full)
    except lw.CircuitCompilationError:
        u = "uncompilable"
    return (
        c.n_modes, c.input_modes, _val(c.heralds), _val(c._external_heralds),
        tuple(c._internal_modes), _val(c._get_circuit_spec()), u,
    )


def observe_light(c):
    """observable state without compiling (the unitary is a function of it)"""
    return (
        c.n_modes, c.input_modes, _val(c.heralds), _val(c._external_heralds),
        tuple(c._internal_modes), _val(c._get_circuit_spec()),
    )


def _sub3(h):
    """3-mode circuit with one herald at position h"""
    s = lw.Circuit(3)
    s.bs(0)
    s.bs(1)
    s.ps(2, 0.3)
    s.herald(0, h)
    return s


def _parent(n, with_sub, h1, at1):
    p = lw.Circuit(n)
    p.bs(0)
    if with_sub:
        p.add(_sub3(h1), at1)
    return p


def _argument(kind):
    if kind == 0:
        a = lw.Circuit(2)
        a.bs(0)
        a.ps(1, 0.4)
        return a
    if kind == 1:
        a = lw.Circuit(3)
        a.bs(0)
        a.bs(1, 2)
        a.mode_swaps({0: 2, 2: 0})
        return a
    if kind == 2:
        return _sub3(1)
    if kind == 3:
        a = lw.Circuit(3)
        inner = lw.Circuit(2)
        inner.bs(0)
        a.add(inner, 1, group=True)
        a.ps(0, 0.1)
        return a
    a = lw.Circuit(3)
    a.add(_sub3(0), 0)  # a 2-user-mode circuit? no: 3 user modes + 1 ancilla... keeps 3 modes free -> uses 2
    return a


def _add_core(n, with_sub, h1, at1, kind, at2, group, twice):
    observe = observe_light
    p = _parent(n, with_sub, h1, at1)
    a = _argument(kind)
    before = observe(a)
    try:
        p.add(a, at2, group)
        if twice:
            p.add(a, at2, group)
    except REJECT:
        pass
    return observe(a) == before


def _add_keeps_argument_k0_plain(n: int, at2: int, group: bool, twice: bool) -> bool:
    """
    pre: 2 <= n <= 4 and 0 <= at2 <= 3
    post: _
    """
    return _add_core(n, False, 0, 0, 0, at2, group, twice)


def classify__add_keeps_argument_k0_plain(n, at2, group, twice):
    return "add:%s:plain-parent" % ("grouped" if group else "ungrouped")


def _add_keeps_argument_k0_anc(n: int, h1: int, at1: int, at2: int, group: bool, twice: bool) -> bool:
    """
    pre: 3 <= n <= 4 and 0 <= h1 <= 2 and 0 <= at1 <= n - 2 and 0 <= at2 <= 3
    post: _
    """
    return _add_core(n, True, h1, at1, 0, at2, group, twice)


def classify__add_keeps_argument_k0_anc(n, h1, at1, at2, group, twice):
    return "add:%s:parent-has-ancilla" % ("grouped" if group else "ungrouped")


def _add_keeps_argument_k1_plain(n: int, at2: int, group: bool, twice: bool) -> bool:
    """
    pre: 2 <= n <= 4 and 0 <= at2 <= 3
    post: _
    """
    return _add_core(n, False, 0, 0, 1, at2, group, twice)


def classify__add_keeps_argument_k1_plain(n, at2, group, twice):
    return "add:%s:plain-parent" % ("grouped" if group else "ungrouped")


def _add_keeps_argument_k1_anc(n: int, h1: int, at1: int, at2: int, group: bool, twice: bool) -> bool:
    """
    pre: 3 <= n <= 4 and 0 <= h1 <= 2 and 0 <= at1 <= n - 2 and 0 <= at2 <= 3
    post: _
    """
    return _add_core(n, True, h1, at1, 1, at2, group, twice)


def classify__add_keeps_argument_k1_anc(n, h1, at1, at2, group, twice):
    return "add:%s:parent-has-ancilla" % ("grouped" if group else "ungrouped")


def _add_keeps_argument_k2_plain(n: int, at2: int, group: bool, twice: bool) -> bool:
    """
    pre: 2 <= n <= 4 and 0 <= at2 <= 3
    post: _
    """
    return _add_core(n, False, 0, 0, 2, at2, group, twice)


def classify__add_keeps_argument_k2_plain(n, at2, group, twice):
    return "add:%s:plain-parent" % ("grouped" if group else "ungrouped")


def _add_keeps_argument_k2_anc(n: int, h1: int, at1: int, at2: int, group: bool, twice: bool) -> bool:
    """
    pre: 3 <= n <= 4 and 0 <= h1 <= 2 and 0 <= at1 <= n - 2 and 0 <= at2 <= 3
    post: _
    """
    return _add_core(n, True, h1, at1, 2, at2, group, twice)


def classify__add_keeps_argument_k2_anc(n, h1, at1, at2, group, twice):
    return "add:%s:parent-has-ancilla" % ("grouped" if group else "ungrouped")


def _add_keeps_argument_k3_plain(n: int, at2: int, group: bool, twice: bool) -> bool:
    """
    pre: 2 <= n <= 4 and 0 <= at2 <= 3
    post: _
    """
    return _add_core(n, False, 0, 0, 3, at2, group, twice)


def classify__add_keeps_argument_k3_plain(n, at2, group, twice):
    return "add:%s:plain-parent" % ("grouped" if group else "ungrouped")


def _add_keeps_argument_k3_anc(n: int, h1: int, at1: int, at2: int, group: bool, twice: bool) -> bool:
    """
    pre: 3 <= n <= 4 and 0 <= h1 <= 2 and 0 <= at1 <= n - 2 and 0 <= at2 <= 3
    post: _
    """
    return _add_core(n, True, h1, at1, 3, at2, group, twice)


def classify__add_keeps_argument_k3_anc(n, h1, at1, at2, group, twice):
    return "add:%s:parent-has-ancilla" % ("grouped" if group else "ungrouped")


def _later_edits_keep_parent(n: int, kind: int, at2: int, group: bool, edit: int, m: int) -> bool:
    """
    pre: 3 <= n <= 4 and 0 <= kind <= 3 and 0 <= at2 <= 2 and 0 <= edit <= 3 and 0 <= m <= 2
    post: _
    """
    observe = observe_light
    p = lw.Circuit(n)
    a = _argument(kind)
    try:
        p.add(a, at2, group)
    except REJECT:
        return True
    before = observe(p)
    try:
        if edit == 0:
            a.bs(m)
        elif edit == 1:
            a.herald(1, m)
        elif edit == 2:
            a.add(_argument(0), m)
        else:
            a.loss(m, 0.5)
    except REJECT:
        pass
    return observe(p) == before


def _rej(c, call):
    before = observe_light(c)
    try:
        call()
    except REJECT:
        return observe_light(c) == before
    return True


def _rej_bs_modes(with_sub: bool, h1: int, a: int, b: int, flag: bool, lossy: bool) -> bool:
    """
    pre: 0 <= h1 <= 2 and -1 <= a <= 3 and -1 <= b <= 3
    post: _
    """
    c = _parent(3, with_sub, h1, 1)
    return _rej(c, lambda: c.bs(a, b, reflectivity=0.4, loss=0.2 if lossy else 0, convention="Rx" if flag else "Q"))


def _rej_bs_values(with_sub: bool, h1: int, a: int, v: int, w: int, flag: bool) -> bool:
    """
    pre: 0 <= h1 <= 2 and 0 <= a <= 1 and 0 <= v <= 4 and 0 <= w <= 4
    post: _
    """
    c = _parent(3, with_sub, h1, 1)
    return _rej(c, lambda: c.bs(a, a + 1, reflectivity=VALS[v], loss=VALS[w], convention="H" if flag else "Q"))


def _rej_ps_loss(with_sub: bool, h1: int, a: int, v: int, which: bool) -> bool:
    """
    pre: 0 <= h1 <= 2 and -1 <= a <= 4 and 0 <= v <= 4
    post: _
    """
    c = _parent(3, with_sub, h1, 0)
    if which:
        return _rej(c, lambda: c.ps(a, 0.2, loss=VALS[v]))
    return _rej(c, lambda: c.loss(a, VALS[v]))


def _rej_swaps_pair(with_sub: bool, h1: int, a: int, b: int) -> bool:
    """
    pre: 1 <= h1 <= 2 and -1 <= a <= 3 and 0 <= b <= 3
    post: _
    """
    c = _parent(3, with_sub, h1, 1)
    return _rej(c, lambda: c.mode_swaps({a: b, b: a}))


def _rej_swaps_incomplete(with_sub: bool, h1: int, b: int, d: int) -> bool:
    """
    pre: 0 <= h1 <= 2 and 0 <= b <= 3 and 0 <= d <= 3
    post: _
    """
    c = _parent(3, with_sub, h1, 1)
    return _rej(c, lambda: c.mode_swaps({0: b, b: d}))


def _rej_barrier(with_sub: bool, h1: int, a: int, b: int) -> bool:
    """
    pre: 0 <= h1 <= 2 and -1 <= a <= 3 and -1 <= b <= 3
    post: _
    """
    c = _parent(3, with_sub, h1, 1)
    return _rej(c, lambda: c.barrier([a, b]))


def _rej_herald_first(with_sub: bool, h1: int, a: int, b: int, n1: int) -> bool:
    """
    pre: 0 <= h1 <= 2 and -1 <= a <= 3 and -1 <= b <= 3 and -1 <= n1 <= 2
    post: _
    """
    c = _parent(3, with_sub, h1, 0)
    return _rej(c, lambda: c.herald(n1, a, b))


def _rej_herald_second(with_sub: bool, h1: int, a2: int, b2: int) -> bool:
    """
    pre: 0 <= h1 <= 2 and -1 <= a2 <= 3 and -1 <= b2 <= 3
    post: _
    """
    c = _parent(3, with_sub, h1, 0)
    c.herald(1, 0, 1)
    return _rej(c, lambda: c.herald(0, a2, b2))


def _rej_add(with_sub: bool, h1: int, kind: int, at2: int, group: bool) -> bool:
    """
    pre: 0 <= h1 <= 2 and 0 <= kind <= 3 and -1 <= at2 <= 4
    post: _
    """
    c = _parent(3, with_sub, h1, 1)
    arg = _argument(kind)
    return _rej(c, lambda: c.add(arg, at2, group))


def _copy_is_independent(n: int, h: int, m: int, freeze: bool, edit: int) -> bool:
    """
    pre: 2 <= n <= 3 and 0 <= h < n and 0 <= m < n - 1 and 0 <= edit <= 3
    post: _
    """
    c = lw.Circuit(n)
    c.bs(0)
    c.herald(0, h)
    c.add(_argument(0), 0, True)
    observe = observe_light
    before = observe(c)
    c2 = c.copy(freeze_parameters=freeze)
    if observe(c2) != before:
        return False
    try:
        if edit == 0:
            c2.bs(m)
        elif edit == 1:
            c2.herald(1, m)
        elif edit == 2:
            c2.unpack_groups()
            c2.loss(m, 0.3)
        else:
            c2.add(_argument(0), m)
    except REJECT:
        pass
    if observe(c) != before:
        return False
    # and the other way round
    snap = observe(c2)
    try:
        c.ps(0, 0.7)
        c.herald(0, m)
    except REJECT:
        pass
    return observe(c2) == snap


def _sum_keeps_operands(n: int, m1: int, m2: int) -> bool:
    """
    pre: 2 <= n <= 4 and 0 <= m1 < n - 1 and 0 <= m2 < n
    post: _
    """
    a = lw.Circuit(n)
    a.bs(m1)
    b = lw.Circuit(n)
    b.ps(m2, 0.2)
    b.add(_argument(0), m1, True)
    oa, ob = observe(a), observe(b)
    s = a + b
    s.bs(m1)
    s.unpack_groups()
    return observe(a) == oa and observe(b) == ob and s.n_modes == n


def _untraced(fn, *args):
    """CrossHair chooses the arguments; numba permanents, scipy and the
    multimethod dispatch inside the consumers cannot be traced, so the call
    itself runs concretely on the realised arguments."""
    try:
        from crosshair.core import deep_realize
        from crosshair.tracers import NoTracing, is_tracing
    except ImportError:
        return fn(*args)
    if is_tracing():
        args = deep_realize(args)
        with NoTracing():
            return fn(*args)
    return fn(*args)


def _consumer_body(n, h, cross, hp, which, lossy, sub):
    ho = (h + 1) % (n + 1) if cross else h
    c = lw.Circuit(n + 1)
    c.bs(0)
    c.ps(0, lw.Parameter(0.4))
    c.bs(n - 1)
    if lossy:
        c.loss(0, 0.2)
    if sub:
        c.add(_sub3(1), 0)
    c.herald(hp, h, ho)
    inp = lw.State([1] + [0] * (n - 1))
    oc, oi = observe(c), inp.s
    try:
        if which == 0:
            lw.emulator.Simulator(c).simulate(inp)
        elif which == 1:
            s = lw.emulator.Sampler(c, inp)
            s.probability_distribution
            s.sample_N_outputs(5, seed=1)
            s.sample_N_inputs(5, seed=1)
            s.sample()
        elif which == 2:
            q = lw.emulator.QuickSampler(c, inp)
            q.probability_distribution
            q.sample_N_outputs(5, seed=1)
        elif which == 3:
            lw.emulator.Analyzer(c).analyze(inp)
        elif which == 4:
            lw.interferometers.Reck().map(c, seed=3)
        else:
            em = lw.interferometers.ErrorModel()
            em.loss = lw.interferometers.dists.TopHat(0.0, 0.1)
            lw.interferometers.Reck(em).map(c, seed=3)
    except Exception:
        pass
    return observe(c) == oc and inp.s == oi


def _consumer_simulator(n: int, h: int, cross: bool, hp: int, lossy: bool, sub: bool) -> bool:
    """
    pre: 2 <= n <= 3 and 0 <= h <= n and 0 <= hp <= 1
    post: _
    """
    return _untraced(_consumer_body, n, h, cross, hp, 0, lossy, sub)


def _consumer_sampler(n: int, h: int, cross: bool, hp: int, lossy: bool, sub: bool) -> bool:
    """
    pre: 2 <= n <= 3 and 0 <= h <= n and 0 <= hp <= 1
    post: _
    """
    return _untraced(_consumer_body, n, h, cross, hp, 1, lossy, sub)


def _consumer_quick_sampler(n: int, h: int, cross: bool, hp: int, lossy: bool, sub: bool) -> bool:
    """
    pre: 2 <= n <= 3 and 0 <= h <= n and 0 <= hp <= 1
    post: _
    """
    return _untraced(_consumer_body, n, h, cross, hp, 2, lossy, sub)


def _consumer_analyzer(n: int, h: int, cross: bool, hp: int, lossy: bool, sub: bool) -> bool:
    """
    pre: 2 <= n <= 3 and 0 <= h <= n and 0 <= hp <= 1
    post: _
    """
    return _untraced(_consumer_body, n, h, cross, hp, 3, lossy, sub)


def _consumer_reck(n: int, h: int, cross: bool, hp: int, lossy: bool, sub: bool) -> bool:
    """
    pre: 2 <= n <= 3 and 0 <= h <= n and 0 <= hp <= 1
    post: _
    """
    return _untraced(_consumer_body, n, h, cross, hp, 4, lossy, sub)


def _consumer_reck_noisy(n: int, h: int, cross: bool, hp: int, lossy: bool, sub: bool) -> bool:
    """
    pre: 2 <= n <= 3 and 0 <= h <= n and 0 <= hp <= 1
    post: _
    """
    return _untraced(_consumer_body, n, h, cross, hp, 5, lossy, sub)


def _frozen_copy_keeps_original(n: int, m: int, grouped: bool, heralded: bool) -> bool:
    """
    pre: 3 <= n <= 4 and 0 <= m <= n - 3
    post: _
    """
    # copy(freeze_parameters=True) is about the copy: the circuit it is called on keeps its Parameter
    # objects (also those inside groups) and keeps following them afterwards
    r = lw.Parameter(0.3)
    phi = lw.Parameter(0.7)
    sub = lw.Circuit(3)
    sub.bs(0, reflectivity=r)
    sub.ps(1, phi)
    if heralded:
        sub.herald(0, 2)
    c = lw.Circuit(n)
    c.add(sub, m, group=grouped)
    before = observe_light(c)
    frozen = c.copy(freeze_parameters=True)
    if len(frozen.get_all_params()) != 0:
        return False
    ps = c.get_all_params()
    if len(ps) != 2 or not any(p is r for p in ps) or not any(p is phi for p in ps):
        return False
    if observe_light(c) != before:
        return False
    snap_frozen = observe_light(frozen)
    r.set(0.9)
    phi.set(0.1)
    # the original follows the new values (its observable spec changes), the frozen copy does not
    return observe_light(c) != before and observe_light(frozen) == snap_frozen and observe_light(sub) != None
