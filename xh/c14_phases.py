"""CrossHair condition for C14: every programmed phase lies in [0, 2*pi) - as floats.
The symx harnesses decide this over the reals, where x mod 2*pi is in range by definition;
the float modulo of a tiny negative number returns exactly float(2*pi), which only the real
numpy code shows.  The solver chooses the size and the permutation; Reck().map runs concretely."""
import itertools
import math

import numpy as np

import lightworks as lw
from lightworks.interferometers import Reck
from lightworks.sdk.circuit.components import PhaseShifter

try:
    from crosshair.core import deep_realize
    from crosshair.tracers import NoTracing, is_tracing
except ImportError:  # plain replay without crosshair installed
    deep_realize = None


def _untraced(fn, *args):
    if deep_realize is not None and is_tracing():
        args = deep_realize(args)
        with NoTracing():
            return fn(*args)
    return fn(*args)


def _body(n, k, herald):
    perms = list(itertools.permutations(range(n)))
    perm = perms[k % len(perms)]
    c = lw.Circuit(n)
    swaps = {i: p for i, p in enumerate(perm) if i != p}
    if swaps:
        c.mode_swaps(swaps)
    if herald:
        c.herald(0, n - 1)
    m = Reck().map(c)
    if m.heralds != c.heralds:
        return False
    for s in m._get_circuit_spec():
        if isinstance(s, PhaseShifter) and not (0 <= s.phi < 2 * math.pi):
            return False
    return bool(np.allclose(m.U_full, c.U_full, atol=1e-9))


def _permutation_phases_in_range(n: int, k: int, herald: bool) -> bool:
    """
    pre: 2 <= n <= 4 and 0 <= k < 24 and (n == 4 or k < 6) and (n >= 3 or k < 2)
    post: _
    """
    return _untraced(_body, n, k, herald)
