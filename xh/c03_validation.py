"""CrossHair conditions for C03: malformed inputs/outputs are rejected rather than computed."""
import lightworks as lw
from lightworks.emulator import ModeMismatchError, PhotonNumberError

try:
    from crosshair.core import deep_realize
    from crosshair.tracers import NoTracing, is_tracing
except ImportError:
    deep_realize = None


def _untraced(fn, *args):
    """CrossHair chooses the integers; the emulator (numba-compiled permanent) runs on
    the realised values - traced runs of it returned wrong values that do not replay."""
    if deep_realize is not None and is_tracing():
        args = deep_realize(args)
        with NoTracing():
            return fn(*args)
    return fn(*args)


REJECT = (ModeMismatchError, TypeError, ValueError, PhotonNumberError)
BAD = [1.0, True, 1.5, "1", None]


def _circuit(herald: bool):
    c = lw.Circuit(3 if herald else 2)
    c.bs(0)
    if herald:
        c.bs(1)
        c.herald(1, 2, 0)
    return c


def _ints(herald: bool, n_in: int, i0: int, i1: int, i2: int) -> bool:
    """
    pre: 1 <= n_in <= 3 and -1 <= i0 <= 1 and -1 <= i1 <= 1 and i2 == 0
    post: _
    """
    return _untraced(_ints_body, herald, n_in, i0, i1, i2)


def _ints_body(herald, n_in, i0, i1, i2):
    ins = [i0, i1, i2][:n_in]
    ok = n_in == 2 and i0 >= 0 and i1 >= 0
    try:
        res = lw.emulator.Simulator(_circuit(herald)).simulate(lw.State(ins))
    except REJECT:
        return not ok
    return ok and res.array.shape[0] == 1 and all(o.n_photons == i0 + i1 for o in res.outputs)


def _outputs(i0: int, i1: int, n_out: int, o0: int, o1: int, o2: int) -> bool:
    """
    pre: i0 == 1 and i1 == 0 and 1 <= n_out <= 3 and -1 <= o0 <= 2 and -1 <= o1 <= 1 and o2 == 0
    post: _
    """
    return _untraced(_outputs_body, False, i0, i1, n_out, o0, o1, o2)


def _outputs_body(herald, i0, i1, n_out, o0, o1, o2):
    outs = [o0, o1, o2][:n_out]
    ok = n_out == 2 and o0 >= 0 and o1 >= 0 and o0 + o1 == i0 + i1
    try:
        res = lw.emulator.Simulator(_circuit(herald)).simulate(lw.State([i0, i1]), [lw.State(outs)])
    except REJECT:
        return not ok
    return ok and res.array.shape == (1, 1)


def _types(herald: bool, pos: int, kind: int, in_output: bool) -> bool:
    """
    pre: 0 <= pos <= 1 and 0 <= kind <= 4
    post: _
    """
    bad = None
    for k in range(5):
        if kind == k:
            bad = BAD[k]
    vals = [1, 0]
    for p in range(2):
        if pos == p:
            vals[p] = bad
    try:
        if in_output:
            lw.emulator.Simulator(_circuit(herald)).simulate(lw.State([1, 0]), [lw.State(vals)])
        else:
            lw.emulator.Simulator(_circuit(herald)).simulate(lw.State(vals))
    except REJECT:
        return True
    return False


def _two_inputs_photon_numbers(a0: int, a1: int, b0: int, b1: int) -> bool:
    """
    pre: all(0 <= x <= 1 for x in (a0, a1, b0, b1))
    post: _
    """
    return _untraced(_two_body, a0, a1, b0, b1)


def _two_body(a0, a1, b0, b1):
    c = _circuit(False)
    try:
        lw.emulator.Simulator(c).simulate([lw.State([a0, a1]), lw.State([b0, b1])])
    except PhotonNumberError:
        return a0 + a1 != b0 + b1
    return a0 + a1 == b0 + b1
