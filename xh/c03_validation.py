"""CrossHair conditions for C03: malformed inputs/outputs are rejected rather than computed."""
import lightworks as lw
from lightworks.emulator import ModeMismatchError, PhotonNumberError

VALUES = [0, 1, 2, -1, 1.0, True, 1.5]
REJECT = (ModeMismatchError, TypeError, ValueError, PhotonNumberError)


def _circuit(herald: bool):
    c = lw.Circuit(3 if herald else 2)
    c.bs(0)
    if herald:
        c.bs(1)
        c.herald(1, 2, 0)
    return c


def _well_formed(vals, n_modes):
    return len(vals) == n_modes and all(type(v) is int and v >= 0 for v in vals)


def _validation(herald: bool, n_in: int, i0: int, i1: int, i2: int, use_out: bool, n_out: int, o0: int, o1: int, o2: int) -> bool:
    """
    pre: 0 <= n_in <= 3 and 0 <= n_out <= 3
    pre: all(0 <= x <= 6 for x in (i0, i1, i2, o0, o1, o2))
    post: _
    """
    c = _circuit(herald)
    ins = [VALUES[i] for i in (i0, i1, i2)][:n_in]
    outs = [VALUES[i] for i in (o0, o1, o2)][:n_out]
    ok = _well_formed(ins, 2)
    if use_out:
        ok = ok and _well_formed(outs, 2) and sum(ins) == sum(outs)
    sim = lw.emulator.Simulator(c)
    try:
        res = sim.simulate(lw.State(ins), [lw.State(outs)] if use_out else None)
    except REJECT:
        return not ok
    if not ok:
        return False
    return res.array.shape[0] == 1 and (res.array.shape[1] == 1 if use_out else res.array.shape[1] >= 1)


def _two_inputs_photon_numbers(a0: int, a1: int, b0: int, b1: int) -> bool:
    """
    pre: all(0 <= x <= 2 for x in (a0, a1, b0, b1))
    post: _
    """
    c = _circuit(False)
    try:
        lw.emulator.Simulator(c).simulate([lw.State([a0, a1]), lw.State([b0, b1])])
    except PhotonNumberError:
        return a0 + a1 != b0 + b1
    return a0 + a1 == b0 + b1
