"""CrossHair conditions for C18: State / AnnotatedState / herald bookkeeping /
fock_basis / process_random_seed on the un-instrumented library."""
import math

from lightworks import State
from lightworks.emulator.state import AnnotatedState
from lightworks.emulator.utils import fock_basis
from lightworks.sdk.utils import add_heralds_to_state, remove_heralds_from_state
from lightworks.sdk.utils.random_utils import process_random_seed


def _ok(a):
    return len(a) <= 4 and all(0 <= x <= 4 for x in a)


def _eq_iff(a: list[int], b: list[int]) -> bool:
    """
    pre: len(a) <= 4 and len(b) <= 4
    pre: all(0 <= x <= 4 for x in a) and all(0 <= x <= 4 for x in b)
    post: _
    """
    s1, s2 = State(list(a)), State(list(b))
    same = len(a) == len(b) and all(x == y for x, y in zip(a, b))
    if s1 == s2:
        if not same:
            return False
        if str(s1) != str(s2):  # str is the hash input
            return False
        if s1 != s2:
            return False
    else:
        if same:
            return False
        if not (s1 != s2):
            return False
    return True


def _concat(a: list[int], b: list[int], c: list[int]) -> bool:
    """
    pre: len(a) <= 3 and len(b) <= 3 and len(c) <= 2
    pre: all(0 <= x <= 4 for x in a) and all(0 <= x <= 4 for x in b) and all(0 <= x <= 4 for x in c)
    post: _
    """
    s1, s2, s3 = State(list(a)), State(list(b)), State(list(c))
    s12 = s1 + s2
    if s12.s != a + b:
        return False
    if len(s12) != len(a) + len(b) or s12.n_modes != len(a) + len(b):
        return False
    if s12.n_photons != sum(a) + sum(b):
        return False
    if ((s1 + s2) + s3).s != (s1 + (s2 + s3)).s:
        return False
    # operands unchanged
    return s1.s == a and s2.s == b


def _merge(a: list[int], b: list[int]) -> bool:
    """
    pre: len(a) <= 4 and len(b) <= 4
    pre: all(0 <= x <= 4 for x in a) and all(0 <= x <= 4 for x in b)
    post: _
    """
    s1, s2 = State(list(a)), State(list(b))
    if len(a) != len(b):
        try:
            s1.merge(s2)
        except ValueError:
            return True
        return False
    m1, m2 = s1.merge(s2), s2.merge(s1)
    if m1.s != [x + y for x, y in zip(a, b)]:
        return False
    if m1.s != m2.s:
        return False
    if m1.n_photons != s1.n_photons + s2.n_photons:
        return False
    return s1.s == a and s2.s == b


def _slice_and_copy(a: list[int], i: int, j: int, k: int) -> bool:
    """
    pre: 1 <= len(a) <= 3 and all(0 <= x <= 4 for x in a)
    pre: -3 <= i <= 3 and -3 <= j <= 3 and 0 <= k < len(a)
    post: _
    """
    s = State(list(a))
    sl = s[i:j]
    if not isinstance(sl, State) or sl.s != a[i:j]:
        return False
    if s[k] != a[k]:
        return False
    got = s.s
    got[k] += 1  # mutate the returned list
    if s.s != a:
        return False
    if list(s) != a:
        return False
    return len(s) == len(a) and s.n_photons == sum(a)


def _immutable(a: list[int], k: int, v: int) -> bool:
    """
    pre: 1 <= len(a) <= 4 and all(0 <= x <= 4 for x in a)
    pre: 0 <= k < len(a) and 0 <= v <= 4
    post: _
    """
    from lightworks.sdk.utils.exceptions import StateError
    s = State(list(a))
    n = 0
    try:
        s[k] = v
    except StateError:
        n += 1
    try:
        s.s = [v]
    except StateError:
        n += 1
    try:
        s.n_modes = v
    except StateError:
        n += 1
    return n == 3 and s.s == a


def _iadd_rebinds(a: list[int], b: list[int]) -> bool:
    """
    pre: 1 <= len(a) <= 3 and all(0 <= x <= 3 for x in a)
    pre: 0 <= len(b) <= 2 and all(0 <= x <= 3 for x in b)
    post: _
    """
    # augmented assignment rebinds the name to a new State; the object itself, seen through another
    # reference (an alias, a dictionary key, a table entry), keeps its occupations, length and photon count
    s = State(list(a))
    alias = s
    t = s
    t += State(list(b))
    return (t.s == a + b and alias.s == a and s.s == a and len(alias) == len(a) and alias.n_photons == sum(a)
            and (t is not alias) and alias == State(list(a)))


def _shape(shape, ls):
    """fixed partitions of three labels into modes"""
    l0, l1, l2 = ls
    return [[[l0, l1], [l2]], [[l0, l1, l2]], [[l0], [], [l1, l2]]][shape]


def _annotated(l0: int, l1: int, l2: int, m0: int, m1: int, m2: int, shape: int, shape2: int) -> bool:
    """
    pre: all(0 <= x <= 2 for x in (l0, l1, l2, m0, m1, m2))
    pre: 0 <= shape <= 2 and 0 <= shape2 <= 2
    post: _
    """
    a = _shape(shape, (l0, l1, l2))
    b = _shape(shape2, (m0, m1, m2))
    s1 = AnnotatedState([list(x) for x in a])
    s1r = AnnotatedState([list(reversed(x)) for x in a])
    if not (s1 == s1r) or str(s1) != str(s1r):
        return False
    s2 = AnnotatedState([list(x) for x in b])
    same = len(a) == len(b) and all(sorted(x) == sorted(y) for x, y in zip(a, b))
    if (s1 == s2) != same:
        return False
    return True


def _annotated_ops(l0: int, l1: int, l2: int, m0: int, m1: int, m2: int, shape: int, shape2: int) -> bool:
    """
    pre: all(0 <= x <= 2 for x in (l0, l1, l2, m0, m1, m2))
    pre: 0 <= shape <= 1 and 1 <= shape2 <= 2
    post: _
    """
    a = _shape(shape, (l0, l1, l2))
    b = _shape(shape2, (m0, m1, m2))
    s1 = AnnotatedState([list(x) for x in a])
    s2 = AnnotatedState([list(x) for x in b])
    if s1.n_photons != 3 or s1.n_modes != len(a):
        return False
    cat = s1 + s2
    if cat.n_modes != len(a) + len(b) or cat.n_photons != 6:
        return False
    if len(a) == len(b):
        m = s1.merge(s2)
        if [sorted(x) for x in m.s] != [sorted(x + y) for x, y in zip(a, b)]:
            return False
        if not (m == s2.merge(s1)):
            return False
    else:
        try:
            s1.merge(s2)
            return False
        except ValueError:
            pass
    got = s1.s
    got[-1].append(9)
    return [sorted(x) for x in a] == s1.s


def _annotated_immutable(l0: int, shape: int, via: int, idx: int) -> bool:
    """
    pre: 0 <= l0 <= 2
    pre: 0 <= shape <= 2 and 0 <= via <= 4 and 0 <= idx <= 2
    post: _
    """
    a = _shape(shape, (l0, 1, 0))
    s1 = AnnotatedState([list(x) for x in a])
    twin = AnnotatedState([list(x) for x in a])
    h, text, n = hash(s1), str(s1), s1.n_photons
    i = idx % len(a)
    # every way the API hands out label lists: editing what is returned must not reach the state
    if via == 0:
        s1[i].append(7)
    elif via == 1:
        for mode in s1:
            mode.append(7)
    elif via == 2:
        s1.s[i].append(7)
    elif via == 3:
        s1[0:len(a)][i].append(7)
        sl = s1[0:len(a)]
        if not isinstance(sl, AnnotatedState):
            return False
    else:
        (s1 + twin)[i].append(7)
        s1.merge(twin)[i].append(7)
    return s1 == twin and hash(s1) == h and str(s1) == text and s1.n_photons == n and [sorted(x) for x in s1.s] == [sorted(x) for x in a]


def _herald_roundtrip(state: list[int], hk: list[int], hv: list[int], order: bool) -> bool:
    """
    pre: len(state) <= 3 and all(0 <= x <= 3 for x in state)
    pre: len(hk) <= 2 and len(hv) == len(hk) and all(0 <= x <= 2 for x in hv)
    pre: all(0 <= k < len(state) + len(hk) for k in hk) and len(set(hk)) == len(hk)
    post: _
    """
    pairs = list(zip(hk, hv))
    if order:
        pairs.reverse()
    heralds = dict(pairs)
    full = add_heralds_to_state(State(list(state)), heralds)
    if len(full) != len(state) + len(heralds):
        return False
    for k, v in heralds.items():
        if full[k] != v:
            return False
    back = remove_heralds_from_state(list(full), list(heralds.keys()))
    if back != state:
        return False
    back2 = remove_heralds_from_state(State(list(full)), list(reversed(list(heralds.keys()))))
    if back2 != state:
        return False
    # the list form of the input works too and the input is not modified
    st = list(state)
    full2 = add_heralds_to_state(st, heralds)
    return full2 == full and st == state


def _fock_basis(N: int, n: int) -> bool:
    """
    pre: 0 <= N <= 4 and 0 <= n <= 4
    post: _
    """
    fb = fock_basis(N, n)
    want = math.comb(N + n - 1, n) if N > 0 else (1 if n == 0 else 0)
    if len(fb) != want:
        return False
    seen = set()
    for s in fb:
        if len(s) != N or sum(s) != n or any(x < 0 for x in s):
            return False
        seen.add(tuple(s))
    return len(seen) == len(fb)


def _seed_int(seed: int) -> bool:
    """
    post: _
    """
    r = process_random_seed(seed)
    return r == seed and isinstance(r, int)


def _seed_bool_none(b: bool) -> bool:
    """
    post: _
    """
    try:
        process_random_seed(b)
        ok = False
    except TypeError:
        ok = True
    return ok and process_random_seed(None) is None
