"""CrossHair conditions for C09: swap-dictionary algebra and the non-adjacent
beam splitter rewrite, with symbolic permutations / mode numbers."""
from lightworks.sdk.circuit.circuit_utils import combine_mode_swap_dicts, convert_non_adj_beamsplitters
from lightworks.sdk.circuit.components import BeamSplitter, ModeSwaps


def _r(x, n):
    """realise a small int by branching (the library divides with `/`, which
    CrossHair cannot confirm on symbolic ints)"""
    for v in range(n):
        if x == v:
            return v
    return 0


def _combine(p0: int, p1: int, p2: int, p3: int, q0: int, q1: int, q2: int, q3: int, drop1: bool, drop2: bool) -> bool:
    """
    pre: sorted([p0, p1, p2, p3]) == [0, 1, 2, 3] and sorted([q0, q1, q2, q3]) == [0, 1, 2, 3]
    post: _
    """
    p = [_r(p0, 4), _r(p1, 4), _r(p2, 4), _r(p3, 4)]
    q = [_r(q0, 4), _r(q1, 4), _r(q2, 4), _r(q3, 4)]
    # complete dictionaries, optionally without their fixed points
    s1 = {i: p[i] for i in range(4) if not (drop1 and p[i] == i)}
    s2 = {i: q[i] for i in range(4) if not (drop2 and q[i] == i)}
    c = combine_mode_swap_dicts(dict(s1), dict(s2))
    for x in range(4):
        want = q[p[x]]
        got = c.get(x, x)
        if got != want:
            return False
    # only fixed points are dropped, and the result is itself a complete dictionary
    if any(k == v for k, v in c.items()):
        return False
    return sorted(c.keys()) == sorted(c.values())


def _combine3(p0: int, p1: int, p2: int, q0: int, q1: int, q2: int, drop1: bool, drop2: bool) -> bool:
    """
    pre: sorted([p0, p1, p2]) == [0, 1, 2] and sorted([q0, q1, q2]) == [0, 1, 2]
    post: _
    """
    p = [_r(p0, 3), _r(p1, 3), _r(p2, 3)]
    q = [_r(q0, 3), _r(q1, 3), _r(q2, 3)]
    s1 = {i: p[i] for i in range(3) if not (drop1 and p[i] == i)}
    s2 = {i: q[i] for i in range(3) if not (drop2 and q[i] == i)}
    c = combine_mode_swap_dicts(dict(s1), dict(s2))
    for x in range(3):
        if c.get(x, x) != q[p[x]]:
            return False
    if any(k == v for k, v in c.items()):
        return False
    return sorted(c.keys()) == sorted(c.values())


def _non_adjacent(m1: int, m2: int, rx: bool) -> bool:
    """
    pre: 0 <= m1 <= 6 and 0 <= m2 <= 6 and (m1 - m2 >= 2 or m2 - m1 >= 2)
    post: _
    """
    m1, m2 = _r(m1, 7), _r(m2, 7)
    spec = [BeamSplitter(m1, m2, 0.3, "Rx" if rx else "H")]
    out = convert_non_adj_beamsplitters(spec)
    if len(out) != 3:
        return False
    s1, bs, s2 = out
    if not (isinstance(s1, ModeSwaps) and isinstance(bs, BeamSplitter) and isinstance(s2, ModeSwaps)):
        return False
    lo, hi = min(m1, m2), max(m1, m2)
    # first swap: a permutation of [lo, hi]
    if sorted(s1.swaps.keys()) != list(range(lo, hi + 1)) or sorted(s1.swaps.values()) != list(range(lo, hi + 1)):
        return False
    # it sends m1, m2 to the adjacent pair used by the new beam splitter, same orientation
    if s1.swaps[m1] != bs.mode_1 or s1.swaps[m2] != bs.mode_2:
        return False
    if abs(bs.mode_1 - bs.mode_2) != 1:
        return False
    if (bs.mode_1 < bs.mode_2) != (m1 < m2):
        return False
    if bs.reflectivity != 0.3 or bs.convention != ("Rx" if rx else "H"):
        return False
    # the last swap is the inverse of the first
    for k, v in s1.swaps.items():
        if s2.swaps.get(v) != k:
            return False
    # the original spec entry is not modified
    return spec[0].mode_1 == m1 and spec[0].mode_2 == m2 and len(s2.swaps) == len(s1.swaps)
