"""CrossHair condition for C12: convert_two_qubits_to_adjacent with symbolic qubit indices."""
from lightworks.qubit.converter.qiskit_convert import convert_two_qubits_to_adjacent


def _adjacent(q0: int, q1: int) -> bool:
    """
    pre: 0 <= q0 <= 7 and 0 <= q1 <= 7 and q0 != q1
    post: _
    """
    n0, n1, swaps = convert_two_qubits_to_adjacent(q0, q1)
    if abs(n0 - n1) != 1:
        return False
    if (n0 < n1) != (q0 < q1):
        return False
    # applying the swaps as transpositions of qubit positions moves q0 -> n0 and q1 -> n1
    pos = {q: q for q in range(8)}
    where = list(range(8))  # where[i] = original qubit now at position i
    for a, b in swaps:
        if not (0 <= a <= 7 and 0 <= b <= 7):
            return False
        where[a], where[b] = where[b], where[a]
    if where[n0] != q0 or where[n1] != q1:
        return False
    # new positions lie within the original span
    lo, hi = min(q0, q1), max(q0, q1)
    if not (lo <= n0 <= hi and lo <= n1 <= hi):
        return False
    # each swap involves one of the two gate qubits and no swap is trivial
    for a, b in swaps:
        if a == b or (a not in (q0, q1) and b not in (q0, q1)):
            return False
    return len(swaps) <= 2
