"""CrossHair conditions for C19: any constructible circuit can be displayed.
Symbolic: sizes, component kinds, modes, herald positions, nesting, flags, label
count.  Parameter values are concrete (numeric label formatting rounds floats and
is not confirmable by CrossHair)."""
import math

import matplotlib
matplotlib.use("Agg")
import matplotlib.pyplot as plt
import numpy as np

import lightworks as lw
from lightworks.sdk.utils.exceptions import DisplayError, ModeRangeError
from lightworks.sdk.visualisation import Display

try:
    from crosshair.core import deep_realize
    from crosshair.tracers import NoTracing, is_tracing
except ImportError:  # plain replay without crosshair installed
    deep_realize = None


def _untraced(fn, *args):
    """CrossHair chooses the arguments; the drawing code itself runs concretely
    (its multimethod dispatch cannot be traced: 'unhashable type: multimethod')."""
    if deep_realize is not None and is_tracing():
        args = deep_realize(args)
        with NoTracing():
            return fn(*args)
    return fn(*args)


REJECT = (ModeRangeError, ValueError, TypeError)
PHIS = [0.0, math.pi / 4, math.pi, 3 * math.pi / 2, 0.3, -2.0, 7 * math.pi / 4]


def _observe(c):
    # the full unitary is part of the observable state: a drawer that reorders the modes of a live
    # component (e.g. a descending 'H' beam splitter) leaves every structural count as it was
    u = np.round(np.asarray(c.U_full, dtype=complex), 9) + 0.0
    return (c.n_modes, c.input_modes, sorted(c.heralds["input"].items()), sorted(c.heralds["output"].items()),
            list(c._internal_modes), len(c._get_circuit_spec()), u.shape, u.tobytes())


def _add(c, kind, a, b, v):
    """one component of the given kind; False if the API rejects the arguments"""
    try:
        if kind == 0:
            c.bs(a, b, reflectivity=0.3, loss=0.1 if v % 2 else 0)
        elif kind == 1:
            c.ps(a, PHIS[v % len(PHIS)], loss=0.2 if v >= len(PHIS) else 0)
        elif kind == 2:
            c.loss(a, 0.5)
        elif kind == 3:
            c.mode_swaps({a: b, b: a})
        elif kind == 4:
            c.barrier([a, b]) if v % 2 else c.barrier()
        elif kind == 5:
            c.add(lw.Unitary(lw.random_unitary(2, seed=1), label="U2"), a)
        elif kind == 6:
            p = lw.Parameter(PHIS[v % len(PHIS)], label="phi" if v % 2 else None)
            c.ps(a, p)
            c.bs(a, b, reflectivity=lw.Parameter(0.4, label="r" if v % 3 else None), convention="H")
        elif kind == 7:
            c.bs(a, b, reflectivity=1.0, convention="H")
    except REJECT:
        return False
    return True


def _show(c, dtype, loss, show, labels=None):
    r = Display(c, display_loss=loss, mode_labels=labels, display_type=dtype, show_parameter_values=show)
    if dtype == "mpl":
        ok = isinstance(r, tuple) and len(r) == 2
        plt.close("all")
        return ok
    return r is not None


def _one_body(n, kind, a, b, v, loss, show, mpl):
    c = lw.Circuit(n)
    c.ps(n - 1, 0.25)
    _add(c, kind, a, b, v)
    before = _observe(c)
    if not _show(c, "mpl" if mpl else "svg", loss, show):
        return False
    return _observe(c) == before


def _ps_like(n: int, last: bool, v: int, param: bool, show: bool) -> bool:
    """
    pre: 2 <= n <= 4 and 0 <= v <= 13
    post: _
    """
    a = n - 1 if last else 0
    return _untraced(_one_body, n, 6 if param else 1, a, (a + 1) % n, v, v >= 7, show, False)


def _other(n: int, a: int, unitary: bool, loss: bool, show: bool, mpl: bool) -> bool:
    """
    pre: 2 <= n <= 4 and 0 <= a < n
    post: _
    """
    return _untraced(_one_body, n, 5 if unitary else 2, a, 0, 0, loss, show, mpl)


def _pair_body(k1, k2, a1, a2, loss):
    n = 3
    c = lw.Circuit(n)
    _add(c, k1, a1, (a1 + 1) % n, 3)
    _add(c, k2, a2, (a2 + 2) % n, 4)
    before = _observe(c)
    if not _show(c, "svg", loss, False):
        return False
    return _observe(c) == before


def _mpl_one(n: int, kind: int, a: int, v: int, loss: bool) -> bool:
    """
    pre: 2 <= n <= 3 and 0 <= kind <= 7 and 0 <= a < n and 0 <= v <= 6
    post: _
    """
    return _untraced(_one_body, n, kind, a, (a + 1) % n, v, loss, True, True)


def _sub(h_in, h_out, photons, lossy):
    s = lw.Circuit(3)
    s.bs(0, 2)
    s.ps(1, 0.4)
    if lossy:
        s.loss(2, 0.3)
    s.herald(photons, h_in, h_out)
    return s


def _parent_heralds_body(n, hi, ho, hi2, mpl):
    c = lw.Circuit(n)
    c.bs(0)
    try:
        c.herald(1, hi, ho)
        if hi2 >= 0:
            c.herald(0, hi2)
    except REJECT:
        return True
    before = _observe(c)
    if not _show(c, "mpl" if mpl else "svg", False, False):
        return False
    return _observe(c) == before


def _parent_heralds(n: int, hi: int, ho: int, hi2: int, mpl: bool) -> bool:
    """
    pre: 2 <= n <= 4 and 0 <= hi < n and 0 <= ho < n and -1 <= hi2 <= 0
    post: _
    """
    return _untraced(_parent_heralds_body, n, hi, ho, hi2, mpl)


def _group_body(n, sub_in, sub_out, at, nested, after, mpl, loss):
    c = lw.Circuit(n)
    c.bs(0)
    try:
        s = _sub(sub_in, sub_out, 0, loss)
        if nested:
            outer = lw.Circuit(3)
            outer.add(s, 0)
            outer.ps(1, 0.2)
            c.add(outer, at, group=True, name="outer")
        else:
            c.add(s, at)
        if after == 1:
            c.bs(0)
        elif after == 2:
            c.add(_sub(0, 0, 1, False), 0)
    except REJECT:
        return True
    before = _observe(c)
    if not _show(c, "mpl" if mpl else "svg", loss, False):
        return False
    return _observe(c) == before


def _group_mpl(n: int, sub_in: int, sub_out: int, at: int, nested: bool) -> bool:
    """
    pre: 3 <= n <= 4 and 0 <= sub_in <= 2 and 0 <= sub_out <= 2 and 0 <= at <= n - 2
    post: _
    """
    return _untraced(_group_body, n, sub_in, sub_out, at, nested, 1, True, False)


def _bs_like_k0(n: int, a: int, b: int, loss: bool, show: bool) -> bool:
    """
    pre: 3 <= n <= 4 and 0 <= a < n and 0 <= b < n
    post: _
    """
    return _untraced(_one_body, n, 0, a, b, 1 if loss else 0, loss, show, False)


def _bs_like_k1(n: int, a: int, b: int, loss: bool, show: bool) -> bool:
    """
    pre: 3 <= n <= 4 and 0 <= a < n and 0 <= b < n
    post: _
    """
    return _untraced(_one_body, n, 3, a, b, 1 if loss else 0, loss, show, False)


def _bs_like_k2(n: int, a: int, b: int, loss: bool, show: bool) -> bool:
    """
    pre: 3 <= n <= 4 and 0 <= a < n and 0 <= b < n
    post: _
    """
    return _untraced(_one_body, n, 4, a, b, 1 if loss else 0, loss, show, False)


def _bs_like_k3(n: int, a: int, b: int, loss: bool, show: bool) -> bool:
    """
    pre: 3 <= n <= 4 and 0 <= a < n and 0 <= b < n
    post: _
    """
    return _untraced(_one_body, n, 7, a, b, 1 if loss else 0, loss, show, False)


def _pair_k0(k2: int, a1: int, loss: bool) -> bool:
    """
    pre: 0 <= k2 <= 7 and 0 <= a1 <= 2
    post: _
    """
    return _untraced(_pair_body, 0, k2, a1, 1, loss)


def _pair_k1(k2: int, a1: int, loss: bool) -> bool:
    """
    pre: 0 <= k2 <= 7 and 0 <= a1 <= 2
    post: _
    """
    return _untraced(_pair_body, 1, k2, a1, 1, loss)


def _pair_k2(k2: int, a1: int, loss: bool) -> bool:
    """
    pre: 0 <= k2 <= 7 and 0 <= a1 <= 2
    post: _
    """
    return _untraced(_pair_body, 2, k2, a1, 1, loss)


def _pair_k3(k2: int, a1: int, loss: bool) -> bool:
    """
    pre: 0 <= k2 <= 7 and 0 <= a1 <= 2
    post: _
    """
    return _untraced(_pair_body, 3, k2, a1, 1, loss)


def _pair_k4(k2: int, a1: int, loss: bool) -> bool:
    """
    pre: 0 <= k2 <= 7 and 0 <= a1 <= 2
    post: _
    """
    return _untraced(_pair_body, 4, k2, a1, 1, loss)


def _pair_k5(k2: int, a1: int, loss: bool) -> bool:
    """
    pre: 0 <= k2 <= 7 and 0 <= a1 <= 2
    post: _
    """
    return _untraced(_pair_body, 5, k2, a1, 1, loss)


def _pair_k6(k2: int, a1: int, loss: bool) -> bool:
    """
    pre: 0 <= k2 <= 7 and 0 <= a1 <= 2
    post: _
    """
    return _untraced(_pair_body, 6, k2, a1, 1, loss)


def _pair_k7(k2: int, a1: int, loss: bool) -> bool:
    """
    pre: 0 <= k2 <= 7 and 0 <= a1 <= 2
    post: _
    """
    return _untraced(_pair_body, 7, k2, a1, 1, loss)


def _group_n3_flat(sub_in: int, sub_out: int, at: int, after: int) -> bool:
    """
    pre: 0 <= sub_in <= 2 and 0 <= sub_out <= 2 and 0 <= at <= 1 and 0 <= after <= 2
    post: _
    """
    return _untraced(_group_body, 3, sub_in, sub_out, at, False, after, False, after == 2)


def _group_n3_nested(sub_in: int, sub_out: int, at: int, after: int) -> bool:
    """
    pre: 0 <= sub_in <= 2 and 0 <= sub_out <= 2 and 0 <= at <= 1 and 0 <= after <= 2
    post: _
    """
    return _untraced(_group_body, 3, sub_in, sub_out, at, True, after, False, after == 2)


def _group_n4_flat(sub_in: int, sub_out: int, at: int, after: int) -> bool:
    """
    pre: 0 <= sub_in <= 2 and 0 <= sub_out <= 2 and 0 <= at <= 2 and 0 <= after <= 2
    post: _
    """
    return _untraced(_group_body, 4, sub_in, sub_out, at, False, after, False, after == 2)


def _group_n4_nested(sub_in: int, sub_out: int, at: int, after: int) -> bool:
    """
    pre: 0 <= sub_in <= 2 and 0 <= sub_out <= 2 and 0 <= at <= 2 and 0 <= after <= 2
    post: _
    """
    return _untraced(_group_body, 4, sub_in, sub_out, at, True, after, False, after == 2)


def _all_heralded_body(n, at, k, photons, nested, mpl, loss):
    """a sub-circuit whose every mode is heralded becomes a group without any free mode"""
    c = lw.Circuit(n)
    c.bs(0)
    s = lw.Circuit(k)
    s.ps(0, 0.3)
    if k == 2:
        s.bs(0)
    try:
        for m in range(k):
            s.herald(photons if m == 0 else 0, m)
        if nested:
            outer = lw.Circuit(2)
            outer.add(s, 1)
            c.add(outer, at, group=True, name="outer")
        else:
            c.add(s, at)
        c.ps(0, 0.2)
    except REJECT:
        return True
    before = _observe(c)
    if not _show(c, "mpl" if mpl else "svg", loss, False):
        return False
    return _observe(c) == before


def _all_heralded_mpl(n: int, at: int, k: int, photons: int, nested: bool) -> bool:
    """
    pre: 2 <= n <= 3 and 0 <= at <= n and 1 <= k <= 2 and 0 <= photons <= 1
    post: _
    """
    return _untraced(_all_heralded_body, n, at, k, photons, nested, True, False)


def _all_heralded_svg(n: int, at: int, k: int, photons: int, nested: bool) -> bool:
    """
    pre: 2 <= n <= 3 and 0 <= at <= n and 1 <= k <= 2 and 0 <= photons <= 1
    post: _
    """
    return _untraced(_all_heralded_body, n, at, k, photons, nested, False, photons == 1)


def _labels_and_type_body(n, herald, n_labels, dtype):
    c = lw.Circuit(n)
    c.bs(0)
    if herald:
        c.add(_sub(1, 1, 0, False), 0)
    usable = c.input_modes if not herald else n
    labels = [f"m{i}" for i in range(n_labels)]
    kind = ["svg", "mpl", "png"][dtype]
    try:
        r = Display(c, mode_labels=labels, display_type=kind)
        plt.close("all")
    except DisplayError:
        return kind == "png" or n_labels != usable
    return kind != "png" and n_labels == usable and r is not None



def _labels_and_type(n: int, herald: bool, n_labels: int, dtype: int) -> bool:
    """
    pre: 2 <= n <= 4 and 0 <= n_labels <= 5 and 0 <= dtype <= 2
    post: _
    """
    return _untraced(_labels_and_type_body, n, herald, n_labels, dtype)


def _labels_ext_herald_body(n, group, hi, ho, n_labels, mpl):
    """mode labels on a circuit with a herald set directly on it (and
    optionally a heralded group): exactly n labels are accepted (one per mode
    that is not internal to a group), every other count is a DisplayError"""
    c = lw.Circuit(n)
    c.bs(0)
    if group:
        c.add(_sub(1, 1, 0, False), 0)
    c.herald(1, hi, ho)
    before = _observe(c)
    labels = [f"m{i}" for i in range(n_labels)]
    kind = "mpl" if mpl else "svg"
    try:
        r = Display(c, mode_labels=labels, display_type=kind)
        if mpl:
            shown = [t.get_text() for t in r[1].get_yticklabels()]
            plt.close("all")
            if [s for s in shown if s != "-"] != labels:
                return False
    except DisplayError:
        plt.close("all")
        return n_labels != n and _observe(c) == before
    return n_labels == n and r is not None and _observe(c) == before


def _labels_ext_herald_mpl(n: int, group: bool, hi: int, ho: int, n_labels: int) -> bool:
    """
    pre: 2 <= n <= 3 and 0 <= hi < n and 0 <= ho < n and n - 1 <= n_labels <= n + 1
    post: _
    """
    return _untraced(_labels_ext_herald_body, n, group, hi, ho, n_labels, True)


def _labels_ext_herald_svg(n: int, group: bool, hi: int, ho: int, n_labels: int) -> bool:
    """
    pre: 2 <= n <= 3 and 0 <= hi < n and 0 <= ho < n and n - 1 <= n_labels <= n + 1
    post: _
    """
    return _untraced(_labels_ext_herald_body, n, group, hi, ho, n_labels, False)


def _barrier_variants_body(n, which, a, after, mpl, loss):
    c = lw.Circuit(n)
    c.bs(0)
    if which == 0:
        c.barrier()
    elif which == 1:
        c.barrier([])
    elif which == 2:
        c.barrier([a])
    else:
        c.barrier(list(range(a, n)))
    if after:
        c.ps(a, 0.3)
    before = _observe(c)
    if not _show(c, "mpl" if mpl else "svg", loss, False):
        return False
    return _observe(c) == before


def _barrier_variants(n: int, which: int, a: int, after: bool, mpl: bool) -> bool:
    """
    pre: 2 <= n <= 3 and 0 <= which <= 3 and 0 <= a < n
    post: _
    """
    return _untraced(_barrier_variants_body, n, which, a, after, mpl, False)
