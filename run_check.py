#!/usr/bin/env python3
"""CLI:  run_check.py C07 --tier quick [--repo /repo] [--jobs 16]
         run_check.py --replay <file.json>"""
import argparse
import os
import sys

HERE = os.path.dirname(os.path.abspath(__file__))
sys.path.insert(0, HERE)
from symx import runner  # noqa: E402


def main():
    ap = argparse.ArgumentParser()
    ap.add_argument("prop", nargs="?")
    ap.add_argument("--tier", default=os.environ.get("VERIF_TIER", "quick"))
    ap.add_argument("--repo", default="/repo")
    ap.add_argument("--jobs", type=int, default=min(16, os.cpu_count() or 4))
    ap.add_argument("--seed", type=int, default=int(os.environ.get("VERIF_SEED", "0") or 0))
    ap.add_argument("--replay")
    ap.add_argument("--sweep")
    a = ap.parse_args()
    runner.ensure_env()
    if a.replay:
        sys.exit(runner.replay_main(a.replay))
    if a.sweep:
        sys.exit(runner.concrete_sweep_main(a.sweep, a.tier, a.repo, a.seed, 2 if a.tier == "quick" else 5))
    if not a.prop:
        ap.error("property id required")
    sys.exit(runner.run_check(a.prop.upper(), a.tier, a.repo, a.jobs, a.seed))


if __name__ == "__main__":
    main()
